; ---- interval theory, restated from the property text (C15), not from crd's tables ----
; quality codes of the specification (the contracts map crd's constants onto them by name)
(define-fun Q_MAJOR () Int 1)
(define-fun Q_MINOR () Int 2)
(define-fun Q_PERFECT () Int 3)
(define-fun Q_AUG () Int 4)
(define-fun Q_DIM () Int 5)
(define-fun Q_AUG2 () Int 6)
(define-fun Q_DIM2 () Int 7)
; simple interval number 1..7 of n >= 1, and whole octaves above it
(define-fun simpleNumber ((n Int)) Int (+ (mod (- n 1) 7) 1))
(define-fun octavesOf ((n Int)) Int (div (- n 1) 7))
; semitones of the major scale's degrees: C D E F G A B = 0 2 4 5 7 9 11
(define-fun majorScaleSize ((s Int)) Int
  (ite (= s 1) 0 (ite (= s 2) 2 (ite (= s 3) 4 (ite (= s 4) 5 (ite (= s 5) 7 (ite (= s 6) 9 11)))))))
; unison, fourth, fifth (and their octaves) are the perfect class
(define-fun perfectClass ((n Int)) Bool
  (or (= (simpleNumber n) 1) (= (simpleNumber n) 4) (= (simpleNumber n) 5)))
(define-fun validInterval ((n Int) (q Int)) Bool
  (and (>= n 1)
       (or (and (= q Q_MAJOR) (not (perfectClass n)))
           (and (= q Q_MINOR) (not (perfectClass n)))
           (and (= q Q_PERFECT) (perfectClass n))
           (= q Q_AUG) (= q Q_DIM) (= q Q_AUG2) (= q Q_DIM2))))
(define-fun qualityAdjust ((n Int) (q Int)) Int
  (ite (= q Q_MINOR) (- 1)
  (ite (= q Q_AUG) 1
  (ite (= q Q_DIM) (ite (perfectClass n) (- 1) (- 2))
  (ite (= q Q_AUG2) 2
  (ite (= q Q_DIM2) (ite (perfectClass n) (- 2) (- 3))
  0))))))
(define-fun intervalSize ((n Int) (q Int)) Int
  (+ (majorScaleSize (simpleNumber n)) (* 12 (octavesOf n)) (qualityAdjust n q)))
