; ---- interval theory, restated from the property text (C15), not from crd's tables ----
; quality codes of the specification (the contracts map crd's constants onto them by name)
(define-fun Q_MAJOR () Int 1)
(define-fun Q_MINOR () Int 2)
(define-fun Q_PERFECT () Int 3)
(define-fun Q_AUG () Int 4)
(define-fun Q_DIM () Int 5)
(define-fun Q_AUG2 () Int 6)
(define-fun Q_DIM2 () Int 7)
; simple interval number 1..7 of n >= 1, and whole octaves above it
(define-fun simpleNumber ((n Int)) Int (+ (mod (- n 1) 7) 1))
(define-fun octavesOf ((n Int)) Int (div (- n 1) 7))
; semitones of the major scale's degrees: C D E F G A B = 0 2 4 5 7 9 11
(define-fun majorScaleSize ((s Int)) Int
  (ite (= s 1) 0 (ite (= s 2) 2 (ite (= s 3) 4 (ite (= s 4) 5 (ite (= s 5) 7 (ite (= s 6) 9 11)))))))
; unison, fourth, fifth (and their octaves) are the perfect class
(define-fun perfectClass ((n Int)) Bool
  (or (= (simpleNumber n) 1) (= (simpleNumber n) 4) (= (simpleNumber n) 5)))
(define-fun validInterval ((n Int) (q Int)) Bool
  (and (>= n 1)
       (or (and (= q Q_MAJOR) (not (perfectClass n)))
           (and (= q Q_MINOR) (not (perfectClass n)))
           (and (= q Q_PERFECT) (perfectClass n))
           (= q Q_AUG) (= q Q_DIM) (= q Q_AUG2) (= q Q_DIM2))))
(define-fun qualityAdjust ((n Int) (q Int)) Int
  (ite (= q Q_MINOR) (- 1)
  (ite (= q Q_AUG) 1
  (ite (= q Q_DIM) (ite (perfectClass n) (- 1) (- 2))
  (ite (= q Q_AUG2) 2
  (ite (= q Q_DIM2) (ite (perfectClass n) (- 2) (- 3))
  0))))))
(define-fun intervalSize ((n Int) (q Int)) Int
  (+ (majorScaleSize (simpleNumber n)) (* 12 (octavesOf n)) (qualityAdjust n q)))
; ---- notes ----
; letters are indexed C D E F G A B = 0..6
(define-fun letterSemi ((i Int)) Int
  (ite (= i 0) 0 (ite (= i 1) 2 (ite (= i 2) 4 (ite (= i 3) 5 (ite (= i 4) 7 (ite (= i 5) 9 11)))))))
(define-fun isNaturalPC ((p Int)) Bool
  (or (= p 0) (= p 2) (= p 4) (= p 5) (= p 7) (= p 9) (= p 11)))
; coerced ("notation") qualities: 1 natural (major or perfect), 2 flat (minor, or diminished on the perfect class),
; 3 sharp (augmented), 4 double flat (diminished), 5 double sharp (doubly augmented), 6 triple flat (doubly diminished)
(define-fun coerceQual ((c Int) (n Int)) Int
  (ite (= c 1) (ite (perfectClass n) Q_PERFECT Q_MAJOR)
  (ite (= c 2) (ite (perfectClass n) Q_DIM Q_MINOR)
  (ite (= c 3) Q_AUG
  (ite (= c 4) Q_DIM
  (ite (= c 5) Q_AUG2
  (ite (= c 6) Q_DIM2 0)))))))
; the notation class a quality prints as
(define-fun qualCoerce ((q Int)) Int
  (ite (or (= q Q_MAJOR) (= q Q_PERFECT)) 1
  (ite (= q Q_MINOR) 2
  (ite (= q Q_AUG) 3
  (ite (= q Q_DIM) 4
  (ite (= q Q_AUG2) 5
  (ite (= q Q_DIM2) 6 0)))))))
; floor division / modulus by a positive constant (pitch class and octave of a semitone count)
(define-fun fdiv ((a Int) (b Int)) Int (div a b))
(define-fun fmod ((a Int) (b Int)) Int (mod a b))
