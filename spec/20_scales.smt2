; ---- keys and scales, restated from the property text (C13); no signature table is used ----
; a key is (letter 0..6 = C..B, accidental -1/0/+1, minor?)
(define-fun stepCum ((minor Bool) (i Int)) Int
  (ite minor
    (ite (= i 0) 0 (ite (= i 1) 2 (ite (= i 2) 3 (ite (= i 3) 5 (ite (= i 4) 7 (ite (= i 5) 8 10))))))
    (ite (= i 0) 0 (ite (= i 1) 2 (ite (= i 2) 4 (ite (= i 3) 5 (ite (= i 4) 7 (ite (= i 5) 9 11))))))))
(define-fun scaleLetter ((l Int) (i Int)) Int (mod (+ l i) 7))
; accidental the i-th scale note must carry so that it has the pitch the step pattern demands (99: not expressible with one sharp/flat)
(define-fun scaleAcc ((l Int) (a Int) (minor Bool) (i Int)) Int
  (let ((d (mod (- (+ (letterSemi l) a (stepCum minor i)) (letterSemi (scaleLetter l i))) 12)))
    (ite (= d 0) 0 (ite (= d 1) 1 (ite (= d 11) (- 1) 99)))))
; the 28 supported keys, as listed in the property statement
(define-fun keySupported ((l Int) (a Int) (minor Bool)) Bool
  (ite minor
    (or (and (= l 5) (= a 0)) (and (= l 2) (= a 0)) (and (= l 6) (= a 0)) (and (= l 3) (= a 1)) (and (= l 0) (= a 1))
        (and (= l 4) (= a 1)) (and (= l 1) (= a 1)) (and (= l 1) (= a 0)) (and (= l 4) (= a 0)) (and (= l 0) (= a 0))
        (and (= l 3) (= a 0)) (and (= l 6) (= a (- 1))) (and (= l 2) (= a (- 1))))
    (or (and (= l 0) (= a (- 1))) (and (= l 4) (= a (- 1))) (and (= l 1) (= a (- 1))) (and (= l 5) (= a (- 1)))
        (and (= l 2) (= a (- 1))) (and (= l 6) (= a (- 1))) (and (= l 3) (= a 0)) (and (= l 0) (= a 0)) (and (= l 4) (= a 0))
        (and (= l 1) (= a 0)) (and (= l 5) (= a 0)) (and (= l 2) (= a 0)) (and (= l 6) (= a 0)) (and (= l 3) (= a 1)) (and (= l 0) (= a 1)))))
(define-fun b2i ((b Bool)) Int (ite b 1 0))
(define-fun countAcc ((l Int) (a Int) (minor Bool) (want Int)) Int
  (+ (b2i (= (scaleAcc l a minor 0) want)) (b2i (= (scaleAcc l a minor 1) want)) (b2i (= (scaleAcc l a minor 2) want))
     (b2i (= (scaleAcc l a minor 3) want)) (b2i (= (scaleAcc l a minor 4) want)) (b2i (= (scaleAcc l a minor 5) want))
     (b2i (= (scaleAcc l a minor 6) want))))
; order of sharps F C G D A E B and of flats B E A D G C F (position of a letter)
(define-fun sharpOrder ((l Int)) Int
  (ite (= l 3) 0 (ite (= l 0) 1 (ite (= l 4) 2 (ite (= l 1) 3 (ite (= l 5) 4 (ite (= l 2) 5 6)))))))
(define-fun flatOrder ((l Int)) Int (- 6 (sharpOrder l)))
; pitch class of the tonic
(define-fun keySemi ((l Int) (a Int)) Int (+ (letterSemi l) a))
; ascending distance in semitones between two natural letters (0 for the same letter)
(define-fun ascLetterDist ((l1 Int) (l2 Int)) Int (mod (- (letterSemi l2) (letterSemi l1)) 12))
(define-fun lift12 ((d Int)) Int (ite (< d 0) (+ d 12) d))
; quality of the i-th degree (0..6) of a key's own scale measured from the tonic: 1 2 3 4 5 6 7 / 1 2 b3 4 5 b6 b7
(define-fun ownDegreeQual ((minor Bool) (i Int)) Int
  (ite (or (= i 0) (= i 3) (= i 4)) Q_PERFECT
  (ite (and minor (or (= i 2) (= i 5) (= i 6))) Q_MINOR Q_MAJOR)))
