; ---- abstract chord dictionary (model of chord.Mapper): what a symbol expands to ----
(declare-fun dictHas (Iface String) Bool)
(declare-fun dictLen (Iface String) Int)
(declare-fun dictNum (Iface String Int) Int)
(declare-fun dictQual (Iface String Int) Int)
(define-fun u8 ((x Int)) Int (mod x 256))
(define-fun u32 ((x Int)) Int (mod x 4294967296))
