; ---- abstract chord dictionary (model of chord.Mapper): what a symbol expands to ----
(declare-fun dictHas (Iface String) Bool)
(declare-fun dictLen (Iface String) Int)
(declare-fun dictNum (Iface String Int) Int)
(declare-fun dictQual (Iface String Int) Int)
(define-fun u8 ((x Int)) Int (mod x 256))
(define-fun u32 ((x Int)) Int (mod x 4294967296))
; number of tracks a track selector distributes over (model field of midix.TrackNoSelector)
(declare-fun selRange (Iface) Int)
; ticks of a duration: round(T x v), halves away from zero (C02 allows either neighbour there)
(define-fun ticks ((T Int) (v Real)) Int (mod (round_half_away (* (to_real T) v)) 4294967296))
; the track a selector picks: a function of the selector, whether the operation is a meta operation, and its note index
(declare-fun selOf (Iface Bool Int) Int)
