; ---- settings in force and durations over an instance list (C01, C02, C07) ----
; ia/off: the instance slice; the h* arrays are the heaps the optional settings point into; d: the default
(define-fun-rec keyAt ((ia (Array Int T_op_Instance)) (off Int) (hk (Array Int T_op_Key)) (d T_op_Key) (i Int)) T_op_Key
  (ite (< i 0) d
    (ite (not (= (T_op_Instance_Key (select ia (+ off i))) 0))
      (select hk (T_op_Instance_Key (select ia (+ off i))))
      (keyAt ia off hk d (- i 1)))))
(define-fun-rec bpmAt ((ia (Array Int T_op_Instance)) (off Int) (hi (Array Int Int)) (d Int) (i Int)) Int
  (ite (< i 0) d
    (ite (not (= (T_op_Instance_BPM (select ia (+ off i))) 0))
      (select hi (T_op_Instance_BPM (select ia (+ off i))))
      (bpmAt ia off hi d (- i 1)))))
(define-fun-rec velAt ((ia (Array Int T_op_Instance)) (off Int) (hi (Array Int Int)) (d Int) (i Int)) Int
  (ite (< i 0) d
    (ite (not (= (T_op_Instance_Velocity (select ia (+ off i))) 0))
      (select hi (T_op_Instance_Velocity (select ia (+ off i))))
      (velAt ia off hi d (- i 1)))))
(define-fun-rec meterAt ((ia (Array Int T_op_Instance)) (off Int) (hm (Array Int T_op_Meter)) (d T_op_Meter) (i Int)) T_op_Meter
  (ite (< i 0) d
    (ite (not (= (T_op_Instance_Meter (select ia (+ off i))) 0))
      (select hm (T_op_Instance_Meter (select ia (+ off i))))
      (meterAt ia off hm d (- i 1)))))
; exact sum of the first n duration fractions of a value list
(define-fun-rec sumValues ((va (Array Int T_note_Value)) (off Int) (n Int)) Real
  (ite (<= n 0) 0.0
    (+ (sumValues va off (- n 1))
       (real_div (to_real (T_util_Rat_Num (T_note_Value_Rat (select va (+ off (- n 1))))))
                 (to_real (T_util_Rat_Denom (T_note_Value_Rat (select va (+ off (- n 1))))))))))
