; text carried by a lexer token (ybase.Token.Value): a fixed function of the token
(declare-fun tokenValue (Iface) String)
; canonical decimal rendering of a non-negative integer (fmt %d / %v of an unsigned value)
(declare-fun dec (Int) String)
