; text carried by a lexer token (ybase.Token.Value): a fixed function of the token
(declare-fun tokenValue (Iface) String)
; canonical decimal rendering of a non-negative integer (fmt %d / %v of an unsigned value)
(declare-fun dec (Int) String)
; products and quotients of non-constant reals are kept uninterpreted (the proofs only need that the code and
; the specification compute the same term); constant operands are folded exactly
(declare-fun real_mul (Real Real) Real)
(declare-fun real_div (Real Real) Real)
; what note.ParseDegree makes of a string (ParseDegree reads only its argument and tables fixed at start-up: it is a function;
; these name its graph and are constrained only through ParseDegree's own contract)
(declare-fun pdOk (String) Bool)
(declare-fun pdNum (String) Int)
(declare-fun pdName (String) Int)
; unicode.IsSpace (not interpreted; false at -1, the end-of-input marker, which is no rune)
(declare-fun is_space (Int) Bool)
; the notation a chord-degree token is written in, as astconv's degreeType reads it (0 unknown, 1 note name, 2 number):
; names the function's graph; constrained only through degreeType's own contract
(declare-fun degKind (String) Int)
; strconv.ParseUint(s, 10, 64): whether s is read as an unsigned decimal numeral below 2^64, and the number read
; (a function of the text alone; that leading zeros do not change the number is the library's, not crd's)
(declare-fun parse10_ok (String) Bool)
(declare-fun parse10_val (String) Int)
