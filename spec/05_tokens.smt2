; text carried by a lexer token (ybase.Token.Value): a fixed function of the token
(declare-fun tokenValue (Iface) String)
