; ---- conventional chord symbols (C16 statement): semitones above the root, in order ----
(define-fun chordLen ((s String)) Int
  (ite (or (= s "") (= s "m") (= s "dim") (= s "aug") (= s "sus4") (= s "sus2")) 3
  (ite (or (= s "7") (= s "M7") (= s "maj7") (= s "m7") (= s "mM7") (= s "m7b5") (= s "dim7") (= s "augM7") (= s "7sus4") (= s "6") (= s "m6") (= s "add9")) 4
  (ite (or (= s "9") (= s "m9") (= s "M9") (= s "maj9") (= s "mM9")) 5 0))))
(define-fun chordThird ((s String)) Int
  (ite (or (= s "m") (= s "dim") (= s "m7") (= s "mM7") (= s "m7b5") (= s "dim7") (= s "m9") (= s "mM9") (= s "m6")) 3
  (ite (or (= s "sus4") (= s "7sus4")) 5
  (ite (= s "sus2") 2 4))))
(define-fun chordFifth ((s String)) Int
  (ite (or (= s "dim") (= s "m7b5") (= s "dim7")) 6
  (ite (or (= s "aug") (= s "augM7")) 8 7)))
(define-fun chordFourth ((s String)) Int
  (ite (or (= s "7") (= s "m7") (= s "m7b5") (= s "9") (= s "m9") (= s "7sus4")) 10
  (ite (or (= s "M7") (= s "maj7") (= s "mM7") (= s "augM7") (= s "M9") (= s "maj9") (= s "mM9")) 11
  (ite (or (= s "dim7") (= s "6") (= s "m6")) 9
  (ite (= s "add9") 14 0)))))
(define-fun chordTone ((s String) (t Int)) Int
  (ite (= t 0) 0 (ite (= t 1) (chordThird s) (ite (= t 2) (chordFifth s) (ite (= t 3) (chordFourth s) 14)))))
; ---- diatonic harmonisation (C17 statement), in crd's symbols ----
(define-fun majorTriadSym ((i Int)) String
  (ite (or (= i 0) (= i 3) (= i 4)) "" (ite (= i 6) "dim" "m")))
(define-fun majorSeventhSym ((i Int)) String
  (ite (or (= i 0) (= i 3)) "maj7" (ite (= i 4) "7" (ite (= i 6) "m7b5" "m7"))))
; the natural minor scale is the major scale started on its sixth degree
(define-fun harmonySym ((minor Bool) (seventh Bool) (i Int)) String
  (let ((d (ite minor (mod (+ i 5) 7) i)))
    (ite seventh (majorSeventhSym d) (majorTriadSym d))))
