; ---- circle of fifths (C14) ----
; position of a key on the circle of its mode: C / Am at 0, each step one perfect fifth up (7 is its own inverse modulo 12)
(define-fun circleIndex ((l Int) (a Int) (minor Bool)) Int (mod (* 7 (- (keySemi l a) (ite minor 9 0))) 12))
; number of sharps minus number of flats of a key's scale
(define-fun signature ((l Int) (a Int) (minor Bool)) Int (- (countAcc l a minor 1) (countAcc l a minor (- 1))))
; ---- chains of conversions (C14): mode and tonic offset after the first n conversions of a chain ----
(define-fun convFlips ((x Int)) Bool (or (= x 1) (= x 2)))
(define-fun convShift ((x Int) (minor Bool)) Int (ite (= x 3) 7 (ite (= x 4) 5 (ite (= x 1) 0 (ite minor 3 9)))))
(define-fun-rec chainMinor ((a (Array Int Int)) (off Int) (n Int) (m0 Bool)) Bool
  (ite (<= n 0) m0 (not (= (chainMinor a off (- n 1) m0) (convFlips (select a (+ off (- n 1))))))))
(define-fun-rec chainSemi ((a (Array Int Int)) (off Int) (n Int) (m0 Bool)) Int
  (ite (<= n 0) 0 (+ (chainSemi a off (- n 1) m0) (convShift (select a (+ off (- n 1))) (chainMinor a off (- n 1) m0)))))
