; ---- circle of fifths (C14) ----
; position of a key on the circle of its mode: C / Am at 0, each step one perfect fifth up (7 is its own inverse modulo 12)
(define-fun circleIndex ((l Int) (a Int) (minor Bool)) Int (mod (* 7 (- (keySemi l a) (ite minor 9 0))) 12))
; number of sharps minus number of flats of a key's scale
(define-fun signature ((l Int) (a Int) (minor Bool)) Int (- (countAcc l a minor 1) (countAcc l a minor (- 1))))
