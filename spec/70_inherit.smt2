; ---- chord dictionary inheritance (C16) ----
; A rank is a witness that following `extends` ends: every chord whose parent exists has a larger rank than the parent.
; dictRank names such a witness for a chord table (a map object); it is constrained only by preconditions that use it.
(declare-fun dictRank (Int) (Array String Int))
(define-fun chordOf ((mo Map_String_T_chord_Chord) (n String)) T_chord_Chord (select (Map_String_T_chord_Chord_val mo) n))
(define-fun hasChord ((mo Map_String_T_chord_Chord) (n String)) Bool (select (Map_String_T_chord_Chord_dom mo) n))
; the parent that is actually followed: named, present, and of smaller rank
(define-fun follows ((mo Map_String_T_chord_Chord) (rk (Array String Int)) (n String)) Bool
  (and (not (= (T_chord_Chord_Extends (chordOf mo n)) ""))
       (hasChord mo (T_chord_Chord_Extends (chordOf mo n)))
       (<= 0 (select rk (T_chord_Chord_Extends (chordOf mo n))))
       (< (select rk (T_chord_Chord_Extends (chordOf mo n))) (select rk n))))
; number of attribute names a symbol expands to: the parent's (transitively) followed by its own
(define-fun-rec inhLen ((mo Map_String_T_chord_Chord) (rk (Array String Int)) (n String)) Int
  (ite (hasChord mo n)
       (+ (ite (follows mo rk n) (inhLen mo rk (T_chord_Chord_Extends (chordOf mo n))) 0)
          (Slice_len (T_chord_Chord_Attributes (chordOf mo n))))
       0))
; the j-th attribute name of that expansion (sh is the heap of string arrays the Attributes slices live in)
(define-fun-rec inhName ((mo Map_String_T_chord_Chord) (rk (Array String Int)) (sh (Array Int (Array Int String))) (n String) (j Int)) String
  (ite (and (follows mo rk n) (< j (inhLen mo rk (T_chord_Chord_Extends (chordOf mo n)))))
       (inhName mo rk sh (T_chord_Chord_Extends (chordOf mo n)) j)
       (select (select sh (Slice_arr (T_chord_Chord_Attributes (chordOf mo n))))
               (+ (Slice_off (T_chord_Chord_Attributes (chordOf mo n)))
                  (- j (ite (follows mo rk n) (inhLen mo rk (T_chord_Chord_Extends (chordOf mo n))) 0))))))
