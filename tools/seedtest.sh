#!/bin/bash
# usage: tools/seedtest.sh <seed-dir> [props...]  — applies a seeded patch to a scratch copy of /repo and runs the checks there.
set -u
SEED="$(cd "$1" && pwd)"; shift
PROPS="$@"
[ -z "$PROPS" ] && PROPS=$(python3 -c "import json;print(json.load(open('$SEED/meta.json'))['property'])")
W=$(mktemp -d /tmp/seedrun.XXXXXX)
rsync -a --exclude .git /repo/ "$W/repo/"
if ! (cd "$W/repo" && patch -p1 -s < "$SEED/patch.diff"); then echo "PATCH-FAILED $SEED"; rm -rf "$W"; exit 3; fi
rc=0
for p in $PROPS; do
  out=$(cd /verif && VERIF_REPO="$W/repo" ./bin/govc check -prop $p -repo "$W/repo" -no-evidence 2>&1)
  r=$?
  echo "[$p rc=$r] $(echo "$out" | grep -E 'VIOLATION|UNDECIDED' | head -5 | tr '\n' ' ')"
  echo "$out" | tail -1
  [ $r -ne 0 ] && rc=$r
done
rm -rf "$W"
exit $rc
