#!/bin/bash
# usage: tools/seedtest.sh <seed-dir> [props...]  — applies a seeded patch to a scratch copy of /repo and runs the checks there
# (evidence and replay files go to the scratch directory, never to /verif/evidence).
set -u
SEED="$(cd "$1" && pwd)"; shift
PROPS="$@"
[ -z "$PROPS" ] && PROPS=$(python3 -c "import json;print(json.load(open('$SEED/meta.json'))['property'])")
W=$(mktemp -d /tmp/seedrun.XXXXXX)
rsync -a --exclude .git /repo/ "$W/repo/"
mkdir -p "$W/verif"; cp -r /verif/spec /verif/props "$W/verif/"; [ -f /verif/known_findings.json ] && cp /verif/known_findings.json "$W/verif/"
if ! (cd "$W/repo" && patch -p1 -s < "$SEED/patch.diff"); then echo "PATCH-FAILED $SEED"; rm -rf "$W"; exit 3; fi
rc=0
for p in $PROPS; do
  out=$(cd /verif && ${GOVC:-./bin/govc} check -prop $p -repo "$W/repo" -verif "$W/verif" 2>&1)
  r=$?
  echo "[$p rc=$r]"
  echo "$out" | grep -E 'VIOLATION|UNDECIDED|KNOWN' | head -6 | sed "s|$W||g"
  echo "$out" | tail -1
  if [ "${SHOW_REPLAY:-}" = 1 ]; then
    for f in "$W"/verif/replays/$p/*.json; do [ -f "$f" ] && python3 -c "
import json,sys
d=json.load(open('$f')); r=d.get('replay') or {}
print('  replay', d['obligation'], 'confirmed=',r.get('confirmed'), '|', r.get('call'), '|', r.get('note'))"; done
  fi
  [ $r -ne 0 ] && rc=$r
done
rm -rf "$W"
exit $rc
