#!/usr/bin/env python3
"""Writes /verif/MANIFEST.json from tools/manifest_table.json (one row per property)."""
import json, os, subprocess

def hook_commits():
    # commits of /repo that touch the guarded hook files (verif_*.go, all behind //go:build verif)
    try:
        out = subprocess.run(["git", "-C", "/repo", "log", "--reverse", "--format=%h %s", "--", "*/verif_*.go"], capture_output=True, text=True).stdout
        return [l.strip() for l in out.splitlines() if l.strip()]
    except Exception:
        return []

here = os.path.dirname(os.path.abspath(__file__))
root = os.path.dirname(here)
tab = json.load(open(os.path.join(here, "manifest_table.json")))
checks, na = [], []
for row in tab["properties"]:
    pid = row["id"]
    if row.get("not_applicable"):
        na.append({"property_id": pid, "reason": row["not_applicable"]})
        continue
    checks.append({
        "property_id": pid,
        "quick_cmd": f"./check {pid} quick",
        "thorough_cmd": f"./check {pid} thorough",
        "evidence_file": f"/verif/evidence/{pid}.json",
        "replay_cmd_template": "./replay {path}",
        "engine": "govc",
        "level_claimed": {"category": "proof", "text": row["level_text"], "design_ref": row.get("design_ref", "DESIGN.md §9")},
        "level_note": row["level_note"],
        "technique": row.get("technique", "contract-based deductive verification: weakest-precondition style VC generation over go/ssa of the real code, contracts in //@ comments, discharged by z3/cvc5"),
    })
m = {
    "version": 1,
    "setup_cmd": "cd /verif/govc && GOFLAGS=-mod=mod GOPROXY=off go build -o /verif/bin/govc .",
    "hooks": {
        "guard": "verif",
        "enable": "-tags verif (govc loads /repo with this tag; files verif_*.go hold contracts as comments and ghost lemma functions)",
        "baseline_off_cmd": "cd /repo && GOFLAGS=-mod=mod GOPROXY=off go test -vet=off -count=1 ./...",
        "source_commits": hook_commits(),
        "add_only": True,
    },
    "engines": [{"name": "govc", "path": "/verif/govc", "serves_properties": [c["property_id"] for c in checks],
                 "kind_free_text": "VC generator over go/ssa with Gobra-style contracts; SMT back ends z3 4.8.12, z3 5.1.0, cvc5 1.0.3 raced per obligation"}],
    "checks": checks,
    "not_applicable": na,
    "notes": tab.get("notes", ""),
}
json.dump(m, open(os.path.join(root, "MANIFEST.json"), "w"), indent=1)
print("wrote MANIFEST.json:", len(checks), "checks,", len(na), "not applicable")
