#!/bin/bash
# renames one identifier per case of selftest_pass/renames.json (whole word, whole file) in a scratch copy of /repo and runs
# the property's check: every one must exit 0 (a rename is not a change of behaviour)
cd "$(dirname "$0")/.."
n=$(python3 -c "import json;print(len(json.load(open('selftest_pass/renames.json'))))")
for i in $(seq 0 $((n-1))); do
  eval "$(python3 - $i <<'PY'
import json,sys,shlex
c=json.load(open('selftest_pass/renames.json'))[int(sys.argv[1])]
print("P=%s; F=%s; OLD=%s; NEW=%s" % tuple(shlex.quote(c[k]) for k in ("property","file","old","new")))
PY
)"
  out=$(tools/renametest.sh "$P" "$F" "$OLD" "$NEW" 2>&1); rc=$?
  if [ $rc -eq 0 ]; then echo "pass  $P $F $OLD->$NEW"; else echo "ALARM $P $F $OLD->$NEW"; echo "$out" | grep -E "VIOLATION|UNDECIDED|FAIL|rror" | head -3; fi
done
