#!/bin/bash
# usage: tools/mut.sh <prop> <file-relative-to-repo> <old-text> <new-text>
# one-off mutation test: replaces old-text by new-text in a scratch copy of /repo, checks that it still builds, runs the property's check there.
set -u
P=$1; F=$2; OLD=$3; NEW=$4
W=$(mktemp -d /tmp/mutrun.XXXXXX)
rsync -a --exclude .git /repo/ "$W/repo/"
mkdir -p "$W/verif"; cp -r /verif/spec /verif/props "$W/verif/"; [ -f /verif/known_findings.json ] && cp /verif/known_findings.json "$W/verif/"
OLD="$OLD" NEW="$NEW" python3 - "$W/repo/$F" <<'PY'
import os,sys
p=sys.argv[1]; s=open(p).read(); o=os.environ['OLD']; n=os.environ['NEW']
if o not in s: print("OLD-TEXT-NOT-FOUND"); sys.exit(3)
open(p,'w').write(s.replace(o,n,1))
PY
[ $? -ne 0 ] && { rm -rf "$W"; exit 3; }
(cd "$W/repo" && GOFLAGS=-mod=mod GOPROXY=off go build ./... 2>&1 | head -5)
out=$(cd /verif && ${GOVC:-./bin/govc} check -prop $P -repo "$W/repo" -verif "$W/verif" 2>&1); r=$?
echo "[$P rc=$r]"; echo "$out" | grep -E 'VIOLATION|UNDECIDED|KNOWN' | head -6 | sed "s|$W||g"; echo "$out" | tail -1
if [ "${SHOW_REPLAY:-}" = 1 ]; then
  for f in "$W"/verif/replays/$P/*.json; do [ -f "$f" ] && python3 -c "
import json
d=json.load(open('$f')); r=d.get('replay') or {}
print('  replay', d['obligation'], 'confirmed=',r.get('confirmed'), '|', r.get('call'), '|', r.get('note'))"; done
fi
rm -rf "$W"; exit $r
