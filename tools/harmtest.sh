#!/bin/bash
# usage: tools/harmtest.sh <patch.diff> [props...]
# applies a behaviour-preserving patch to a scratch copy of /repo and runs the checks of every property whose plan has a
# function in a package the patch touches (or the given properties): every one must exit 0.
set -u
PATCH="$(cd "$(dirname "$1")" && pwd)/$(basename "$1")"; shift
PROPS="$@"
cd "$(dirname "$0")/.."
if [ -z "$PROPS" ]; then
  PROPS=$(python3 - "$PATCH" <<'PY'
import json,glob,re,sys,os
files=re.findall(r'^\+\+\+ b/(\S+)', open(sys.argv[1]).read(), re.M)
pkgs=set()
for f in files:
    d=os.path.dirname(f)
    pkgs.add({'cmd':'main','input/ast':'ast'}.get(d, os.path.basename(d)))
claimed=[c['property_id'] for c in json.load(open('MANIFEST.json'))['checks']]
out=[]
for p in claimed:
    fs=json.load(open('props/%s.json'%p))['functions']
    if any(f.split('.')[0] in pkgs for f in fs): out.append(p)
print(' '.join(out))
PY
)
fi
W=$(mktemp -d /tmp/harmrun.XXXXXX)
rsync -a --exclude .git /repo/ "$W/repo/"
mkdir -p "$W/verif"; cp -r spec props "$W/verif/"; cp known_findings.json "$W/verif/"
if ! (cd "$W/repo" && patch -p1 -s < "$PATCH"); then echo "PATCH-FAILED $PATCH"; rm -rf "$W"; exit 3; fi
rc=0
for p in $PROPS; do
  out=$(${GOVC:-./bin/govc} check -prop $p -repo "$W/repo" -verif "$W/verif" 2>&1); r=$?
  if [ $r -eq 0 ]; then echo "  quiet $p"; else rc=1; echo "  ALARM $p"; echo "$out" | grep -E "^VIOLATION|^UNDECIDED" | head -4 | sed "s|$W||g" | cut -c1-260; fi
done
rm -rf "$W"; exit $rc
