#!/bin/bash
# runs the quick check of every claimed property on the current /repo (no evidence rewrite unless EVIDENCE=1); prints one line each
cd "$(dirname "$0")/.."
props=$(python3 -c "import json;print(' '.join(c['property_id'] for c in json.load(open('MANIFEST.json'))['checks']))")
flag="-no-evidence"; [ "${EVIDENCE:-}" = 1 ] && flag=""
run1() { out=$(./bin/govc check -prop $1 $2 -repo /repo -verif /verif 2>&1); rc=$?; echo "rc=$rc $(echo "$out" | tail -1)"; echo "$out" | grep -E "^VIOLATION|^UNDECIDED|^KNOWN" | head -5; }
export -f run1
printf "%s\n" $props | xargs -P ${JOBS:-3} -I{} bash -c "run1 {} $flag"
