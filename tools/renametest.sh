#!/bin/bash
# usage: tools/renametest.sh <prop> <file-relative-to-repo> <old-identifier> <new-identifier>
# renames an identifier (whole word, every occurrence in the file, contract files excluded) in a scratch copy of /repo,
# checks that it builds and that the test suite of the package passes, and runs the property's check there: it must stay quiet.
set -u
P=$1; F=$2; OLD=$3; NEW=$4
W=$(mktemp -d /tmp/renrun.XXXXXX)
rsync -a --exclude .git /repo/ "$W/repo/"
mkdir -p "$W/verif"; cp -r /verif/spec /verif/props "$W/verif/"; [ -f /verif/known_findings.json ] && cp /verif/known_findings.json "$W/verif/"
if [ "$F" = ALL ]; then
  # every file of the repository except the contract files (a function or method renamed with all its callers)
  (cd "$W/repo" && grep -rlw "$OLD" --include=*.go . | grep -v "/verif_" | xargs sed -i "s/\b$OLD\b/$NEW/g")
  (cd "$W/repo" && GOFLAGS=-mod=mod GOPROXY=off go build ./... 2>&1 | head -5 && GOFLAGS=-mod=mod GOPROXY=off go test -vet=off -count=1 ./... 2>&1 | grep -v "^ok\|no test files" | head -5)
else
  sed -i "s/\b$OLD\b/$NEW/g" "$W/repo/$F"
  (cd "$W/repo" && GOFLAGS=-mod=mod GOPROXY=off go build ./... 2>&1 | head -5 && GOFLAGS=-mod=mod GOPROXY=off go test -vet=off -count=1 ./$(dirname $F)/ 2>&1 | tail -1)
fi
out=$(cd /verif && ${GOVC:-./bin/govc} check -prop $P -repo "$W/repo" -verif "$W/verif" 2>&1); r=$?
echo "[$P rc=$r]"; echo "$out" | grep -E 'VIOLATION|UNDECIDED|KNOWN' | head -6 | sed "s|$W||g"; echo "$out" | tail -1
rm -rf "$W"; exit $r
