#!/bin/bash
# usage: tools/confirm_seed.sh <seed-dir>
# Re-confirms a kept breaking change in a scratch git worktree of /repo's HEAD (never in /repo itself):
#  clean tree: demonstration passes; changed tree: builds, the whole unedited test suite passes, demonstration fails.
# Writes <seed-dir>/confirm.json and removes the worktree.
set -u
SEED="$(cd "$1" && pwd)"; id=$(basename "$SEED")
export GOFLAGS=-mod=mod GOPROXY=off
W=$(mktemp -d /tmp/confirm_${id}.XXXX); rmdir "$W"
git -C /repo worktree add --detach -q "$W" HEAD || exit 3
prop=$(python3 -c "import json;print(json.load(open('$SEED/meta.json'))['property'])")
cmd=$(python3 - "$SEED" "$W" <<'PY'
import json,sys,re
seed,w=sys.argv[1],sys.argv[2]
c=json.load(open(seed+'/meta.json')).get('demo_cmd','')
c=c.split('   #')[0]
c=re.sub(r'/tmp/seed_out\d*/(C\d\d/)?(C\d\d_\w)/', seed+'/', c)
c=re.sub(r'/tmp/seed_out\d*/(C\d\d/)?(C\d\d_\w)\b', seed, c)
c=re.sub(r'/tmp/seed\d_C\d\d', w, c)
print(c)
PY
)
stage() { # copy demo files into the worktree root, with old scratch paths rewritten
  for f in "$SEED"/*; do b=$(basename "$f"); case "$b" in patch.diff|meta.json|confirm.json) ;; *) sed -E -e "s#/tmp/seed_out[0-9]*/(C[0-9][0-9]/)?C[0-9][0-9]_[a-z]/#$SEED/#g; s#/tmp/seed_out[0-9]*/(C[0-9][0-9]/)?C[0-9][0-9]_[a-z]#$SEED#g; s#/tmp/seed[0-9]_C[0-9][0-9]#$W#g" "$f" > "$W/$b";; esac; done; }
rundemo() { (cd "$W" && timeout 900 bash -c "$cmd") > "$W.demo.log" 2>&1; echo $?; }
stage; clean_rc=$(rundemo); clean_tail=$(tail -3 "$W.demo.log" | tr '\n' ' ' | cut -c1-300)
git -C "$W" checkout -q -- . ; git -C "$W" clean -fdq
applied=yes; git -C "$W" apply "$SEED/patch.diff" 2>/dev/null || applied=no
build_rc=-1; test_rc=-1; demo_rc=-1; demo_tail=""
if [ $applied = yes ]; then
  (cd "$W" && go build ./... ) >/dev/null 2>&1; build_rc=$?
  (cd "$W" && go test -vet=off -count=1 ./... ) > "$W.test.log" 2>&1; test_rc=$?
  stage; demo_rc=$(rundemo); demo_tail=$(tail -3 "$W.demo.log" | tr '\n' ' ' | cut -c1-300)
fi
git -C /repo worktree remove --force "$W"; rm -f "$W.demo.log" "$W.test.log"
export CS_ID="$id" CS_PROP="$prop" CS_CMD="$cmd" CS_CLEAN=$clean_rc CS_APPLIED=$applied CS_BUILD=$build_rc CS_TEST=$test_rc CS_DEMO=$demo_rc CS_CTAIL="$clean_tail" CS_DTAIL="$demo_tail"
python3 - "$SEED" <<'PY'
import json,sys,os,subprocess
e=os.environ
head=subprocess.run(["git","-C","/repo","rev-parse","--short","HEAD"],capture_output=True,text=True).stdout.strip()
r={"seed":e["CS_ID"],"property":e["CS_PROP"],"repo_head":head,"date":"2026-09-27",
   "what_was_run":"scratch worktree of /repo HEAD; demo on clean tree; git apply patch.diff; go build ./...; go test -vet=off -count=1 ./... (unedited suite); demo on changed tree",
   "demo_cmd_used":e["CS_CMD"],
   "clean_tree_demo_exit":int(e["CS_CLEAN"]),"patch_applies":e["CS_APPLIED"],"build_exit":int(e["CS_BUILD"]),"test_suite_exit":int(e["CS_TEST"]),"changed_tree_demo_exit":int(e["CS_DEMO"]),
   "clean_tail":e["CS_CTAIL"],"changed_tail":e["CS_DTAIL"]}
r["confirmed"]= (r["clean_tree_demo_exit"]==0 and r["patch_applies"]=="yes" and r["build_exit"]==0 and r["test_suite_exit"]==0 and r["changed_tree_demo_exit"]!=0)
json.dump(r,open(sys.argv[1]+"/confirm.json","w"),indent=1)
print(r["seed"], "CONFIRMED" if r["confirmed"] else "NOT-CONFIRMED", {k:r[k] for k in ("clean_tree_demo_exit","patch_applies","build_exit","test_suite_exit","changed_tree_demo_exit")})
PY
