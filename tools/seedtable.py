#!/usr/bin/env python3
"""Rewrites the seeds-vs-checks table of DESIGN.md from the output of tools/selftest.sh (default selftest_results.txt)."""
import json, os, re, sys
root = os.path.dirname(os.path.dirname(os.path.abspath(__file__)))
res = {}
for l in open(sys.argv[1] if len(sys.argv) > 1 else os.path.join(root, "selftest_results.txt")):
    l = l.strip()
    if not l or " " not in l: continue
    n, r = l.split(" ", 1); res[n] = r
out = ["| change | what it breaks | confirmed by me | result of the property's check (first failing obligation) |", "|---|---|---|---|"]
for base in ("seeded", "selftest"):
    for n in sorted(os.listdir(os.path.join(root, base))):
        d = os.path.join(root, base, n)
        if not os.path.exists(d + "/meta.json"): continue
        m = json.load(open(d + "/meta.json"))
        s = re.sub(r"\s+", " ", m.get("summary", ""))
        s = s[:150] + ("…" if len(s) > 150 else "")
        conf = "-"
        if os.path.exists(d + "/confirm.json"):
            conf = "yes" if json.load(open(d + "/confirm.json")).get("confirmed") else "NO"
        r = res.get(n, "?").replace("CAUGHT", "caught ").replace("MISSED", "**missed**").replace(":N/A", ": not applicable")
        out.append("| `%s` | %s | %s | %s |" % (n, s.replace("|", "/"), conf, r))
p = os.path.join(root, "DESIGN.md")
t = open(p).read()
a, b = t.index("<!-- SEEDTABLE-BEGIN -->"), t.index("<!-- SEEDTABLE-END -->")
t = t[:a] + "<!-- SEEDTABLE-BEGIN -->\n" + "\n".join(out) + "\n" + t[b:]
open(p, "w").write(t)
print(len(out) - 2, "rows")
