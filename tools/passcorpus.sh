#!/bin/bash
# applies each behaviour-preserving edit of selftest_pass/cases.json to a scratch copy of /repo and runs the property's check:
# every one must exit 0 (no alarm on code where the property holds)
cd "$(dirname "$0")/.."
n=$(python3 -c "import json;print(len(json.load(open('selftest_pass/cases.json'))))")
for i in $(seq 0 $((n-1))); do
  eval "$(python3 - $i <<'PY'
import json,sys,shlex
c=json.load(open('selftest_pass/cases.json'))[int(sys.argv[1])]
print("P=%s; F=%s; OLD=%s; NEW=%s" % tuple(shlex.quote(c[k]) for k in ("property","file","old","new")))
PY
)"
  out=$(tools/mut.sh "$P" "$F" "$OLD" "$NEW" 2>&1); rc=$?
  if [ $rc -eq 0 ]; then echo "pass  $P $F"; else echo "ALARM $P $F"; echo "$out" | grep -E "VIOLATION|UNDECIDED|OLD-TEXT" | head -3; fi
done
