#!/bin/bash
# usage: tools/selftest.sh [dir...]   (default: all of selftest/* and seeded/*)
# Applies each kept breaking change to a scratch copy of /repo and runs the claimed check(s) of its property there.
# Prints one line per change: CAUGHT (a VIOLATION line, exit 1), MISSED (exit 0), N/A (property not claimed), PATCH-FAILED.
cd "$(dirname "$0")/.."
dirs="$@"; [ -z "$dirs" ] && dirs="selftest/* seeded/*"
claimed=$(python3 -c "import json;print(' '.join(c['property_id'] for c in json.load(open('MANIFEST.json'))['checks']))")
run1() {
  d=$1
  [ -f "$d/patch.diff" ] || { echo "NO-PATCH $d"; return; }
  p=$(python3 -c "import json;print(json.load(open('$d/meta.json'))['property'])")
  extra=$(python3 -c "import json;print(' '.join(json.load(open('$d/meta.json')).get('also',[])))")
  res=""
  for q in $p $extra; do
    case " $claimed " in *" $q "*) ;; *) res="$res $q:N/A"; continue;; esac
    out=$(tools/seedtest.sh "$d" $q 2>&1); rc=$?
    if echo "$out" | grep -q PATCH-FAILED; then res="$res $q:PATCH-FAILED"
    elif [ $rc -ne 0 ] && echo "$out" | grep -q "^VIOLATION"; then
      ob=$(echo "$out" | grep "^VIOLATION" | head -1 | sed 's/.*obligation=\([^ ]*\).*/\1/')
      nv=$(echo "$out" | grep -c "^VIOLATION"); nc=$(echo "$out" | grep "^VIOLATION" | grep -vc "no-failing-input-found")
      res="$res $q:CAUGHT($ob) replayed=$nc/$nv"
    elif echo "$out" | grep -q UNDECIDED; then res="$res $q:UNDECIDED"
    else res="$res $q:MISSED"; fi
  done
  echo "$(basename $d)$res"
}
export -f run1; export claimed
printf "%s\n" $dirs | xargs -P 4 -I{} bash -c 'run1 {}'
