package main

import (
	"sync/atomic"
	"fmt"
	"os"
	"go/constant"
	"go/token"
	"go/types"
	"math/big"
	"sort"
	"strings"
	"time"

	"golang.org/x/tools/go/ssa"
)

type obCase struct {
	pc   []*Term
	goal *Term
	note string
	cut  int // hypotheses from this index on were added after the last loop cut
	cands []*Term // instantiation candidates (skolem constants, indices read, goal terms)
	derived bool  // pc already contains the derived facts
}

// full: the path's facts plus their instances and the unfoldings of recursive spec functions.
func (c obCase) full() []*Term {
	return withDerived(c.pc, c.cands, c.goal)
}

func withDerived(pc []*Term, cands []*Term, goal *Term) []*Term {
	inst := instancesOfGoal(pc, cands, goal)
	if known := knownFacts(pc); len(known) > 0 {
		// instances and hypotheses are read under the literals the path establishes (so are goals, in addOb)
		for i, t := range inst {
			if u := Subst(t, known); !u.IsTrue() {
				inst[i] = u
			}
		}
		derived := derivedFacts
		pc2 := make([]*Term, len(pc))
		for i, t := range pc {
			if u := Subst(t, known); !u.IsTrue() && !hasQuant(t) {
				if os.Getenv("GOVC_DEBUG") == "4" && u != t {
					fmt.Fprintf(os.Stderr, "   rewrite: %s\n        => %s\n", truncate(t.String(), 300), truncate(u.String(), 300))
				}
				pc2[i] = u
			} else {
				pc2[i] = t
			}
		}
		// literals that came out of implications are restated: the implications no longer say them
		pc = append(pc2, derived...)
	}
	out := append(append([]*Term(nil), pc...), inst...)
	unf := unfoldings(append(append([]*Term{}, out...), goal))
	if os.Getenv("GOVC_DEBUG") != "" {
		fmt.Fprintf(os.Stderr, "withDerived: raw=%d inst=%d unf=%d cands=%d\n", len(pc), len(inst), len(unf), len(cands))
		if os.Getenv("GOVC_DEBUG") == "2" {
			for _, c := range cands {
				fmt.Fprintf(os.Stderr, "   cand: %s\n", truncate(c.String(), 120))
			}
			for _, t := range inst {
				fmt.Fprintf(os.Stderr, "   inst: %s\n", truncate(t.String(), 400))
			}
		}
	}
	return append(out, unf...)
}

type Obligation struct {
	Name    string
	Kind    string // post pre inv term safe frame cover lemma
	Func    string
	Clause  string
	Cases   []obCase
	Cover   bool // expectation is sat
	Fn      *ssa.Function
	NTriv   int
	Result  *ObResult
	Failure string // engine-level failure (unsupported construct on a path)
	smts    []string
	variants [][]string
	trivial bool
	failedAlready atomic.Bool
}

type Verifier struct {
	fnStart time.Time // when generation for the function under verification began
	orphanFor map[string]*LoopSpec // left-over loop clauses of the top function's contract, by the inlined loop they were given to
	orphanTop *ssa.Function
	calleeBindings []*Term // bindings of the closure whose contract is being applied
	P       *Program
	obls    map[string]*Obligation
	order   []string
	inc     *IncSolver
	top     *ssa.Function
	topC    *Contract
	entry   *State
	assumed map[string]bool
	paths   int
	maxPath int
	globals map[*ssa.Global]*Term
	gnext   int64
	loops   map[*ssa.Function]*loopInfo
	noPrune bool
	errs    []string
	returned bool
	havocked map[*Term]bool // variables introduced by the current loop havoc
	initCells int
	mut *mutInfo
}

func newVerifier(P *Program) *Verifier {
	return &Verifier{P: P, obls: map[string]*Obligation{}, assumed: map[string]bool{},
		maxPath: 20000, globals: map[*ssa.Global]*Term{}, gnext: 1000, loops: map[*ssa.Function]*loopInfo{}}
}

func (v *Verifier) assumeNote(s string) { v.assumed[s] = true }

// evalInv evaluates a loop invariant; an invariant that names something the function no longer has (a renamed
// or removed variable) is reported as an undecided obligation of its own instead of ending the whole function,
// so that the other obligations still say what else changed. Dropping an invariant only removes a hypothesis.
func (v *Verifier) evalInv(env *SpecEnv, inv Clause, obName string) (g *Term) {
	defer func() {
		if r := recover(); r != nil {
			u, ok := r.(unsupported)
			if !ok || !strings.Contains(u.msg, "unknown identifier") {
				panic(r)
			}
			g = nil
			if obName != "" {
				ob, ok := v.obls[obName]
				if !ok {
					ob = &Obligation{Name: obName, Kind: "inv", Clause: inv.Text, Fn: v.top}
					if v.top != nil {
						ob.Func = funcKey(v.top)
					}
					v.obls[obName] = ob
					v.order = append(v.order, obName)
				}
				ob.Failure = u.msg
			}
		}
	}()
	return env.evalBool(inv.Expr)
}

func (v *Verifier) addOb(name, kind, clause string, st *State, goal *Term, cover bool) {
	if os.Getenv("GOVC_DEBUG") == "6" {
		fmt.Fprintf(os.Stderr, "addOb %s goal=%s\n", name, truncate(goal.String(), 600))
	}
	ob, ok := v.obls[name]
	if !ok {
		ob = &Obligation{Name: name, Kind: kind, Clause: clause, Cover: cover, Fn: v.top}
		if v.top != nil {
			ob.Func = funcKey(v.top)
		}
		v.obls[name] = ob
		v.order = append(v.order, name)
	}
	if !cover && !goal.IsTrue() {
		// conjuncts already among the path's facts are discharged syntactically
		have := map[*Term]bool{}
		for _, t := range st.pc {
			have[t] = true
			if t.Op == "and" {
				for _, a := range t.Args {
					have[a] = true
				}
			}
		}
		if goal.Op == "and" {
			var rest []*Term
			for _, a := range goal.Args {
				if !have[a] {
					rest = append(rest, a)
				}
			}
			goal = And(rest...)
		} else if have[goal] {
			goal = TTrue
		}
	}
	if goal.IsTrue() && !cover {
		ob.NTriv++
		return
	}
	if !cover && goal.Op == "and" && len(goal.Args) >= 8 {
		// a long conjunction (an unrolled quantifier over a literal range): one case per conjunct
		for _, a := range goal.Args {
			v.addOb(name, kind, clause, st, a, false)
		}
		return
	}
	// skolemise universally quantified goals and instantiate the path's
	// quantified facts at the skolem constants and at the indices read on the path
	var sks []*Term
	goal = skolemise(goal, &sks)
	// implication introduction: the antecedent's conjuncts become hypotheses of this case, so that
	// the quantified ones are instantiated like the path's own facts
	origGoal := goal
	if goal.Op == "not" && goal.Args[0].Op == "and" {
		goal = Implies(goal.Args[0], TFalse)
		if goal.Op != "=>" {
			goal = mk("=>", SBool, origGoal.Args[0], TFalse)
		}
	}
	if goal.Op == "=>" {
		st = st.clone()
		for goal.Op == "=>" {
			st.assume(exSkolem(goal.Args[0], &sks))
			goal = skolemise(goal.Args[1], &sks)
		}
	}
	// applications of specification functions in the goal are instantiation candidates too
	{
		seen := map[*Term]bool{}
		n := 0
		var rec func(x *Term)
		rec = func(x *Term) {
			if seen[x] || n >= 12 {
				return
			}
			seen[x] = true
			if x.Op == "app" && x.Sort == SInt && !x.open && !x.ground && x.Str != "go_div" && x.Str != "go_rem" {
				sks = append(sks, x)
				n++
			}
			if x.Op == "select" && x.Args[1].Sort == SInt && !x.Args[1].open {
				// the index of an array read in the goal
				dup := false
				for _, y := range sks {
					if y == x.Args[1] {
						dup = true
					}
				}
				if !dup {
					sks = append(sks, x.Args[1])
					n++
				}
			}
			for _, a := range x.Args {
				rec(a)
			}
		}
		rec(origGoal)
		rec(goal)
	}
	// ... and so are the function's own parameters (for quantifiers over their types)
	if v.entry != nil && len(v.entry.frames) > 0 {
		for _, p := range v.entry.frames[0].fn.Params {
			if t, ok := v.entry.env[p]; ok && t.Sort.Kind == KDT && t.Sort != SSlice && t.Sort != SIface {
				sks = append(sks, t)
			}
		}
	}
	cands := append(append([]*Term(nil), st.idx...), sks...)
	// the key of a running iteration over a map of unknown contents is a term facts are wanted about
	for _, it := range st.iters {
		if it.curKey != nil {
			cands = append(cands, it.curKey)
		}
	}
	if !cover {
		// a loop counter pinned from both sides ( x < L  and  not x+1 < L ) is replaced by its value L-1,
		// so that what the invariant says up to x+1 reads as what the goal says up to L
		for round := 0; round < 3; round++ {
			var x, L *Term
			have := map[*Term]bool{}
			for _, h := range st.pc {
				have[h] = true
			}
			for _, h := range st.pc {
				if h.Op == "not" && h.Args[0].Op == "<" {
					if y, ok := minusOne(h.Args[0].Args[0]); ok && y.Op == "var" && !mentions(h.Args[0].Args[1], y) && have[Lt(y, h.Args[0].Args[1])] {
						x, L = y, h.Args[0].Args[1]
						break
					}
				}
			}
			val := (*Term)(nil)
			if x != nil {
				val = Sub(L, IntLit(1))
			} else {
				// the same for a counted loop ( x - 1 < L  from the invariant, not x < L  from the exit): x is L
				for _, h := range st.pc {
					if h.Op == "not" && h.Args[0].Op == "<" {
						y, l := h.Args[0].Args[0], h.Args[0].Args[1]
						if y.Op == "var" && !mentions(l, y) && (have[Lt(Sub(y, IntLit(1)), l)] || have[Le(y, l)] || have[Lt(y, Add(l, IntLit(1)))]) {
							x, L, val = y, l, l
							break
						}
					}
				}
			}
			if x == nil {
				break
			}
			m := map[*Term]*Term{x: val}
			st = st.clone()
			for i, t := range st.pc {
				st.pc[i] = Subst(t, m)
			}
			goal = Subst(goal, m)
			for i, c := range cands {
				cands[i] = Subst(c, m)
			}
		}
		if kind == "inv" || kind == "post" {
			goal = splitLastExists(goal)
		}
		goal = underFacts(st.pc, goal)
		if goal.IsTrue() {
			ob.NTriv++
			return
		}
	}
	// "last element" split: a skolem constant bounded by  sk < x + 1  is considered separately
	// below x (the part the hypothesis already covers) and at x (the new element)
	if kind == "inv" || kind == "post" {
		for _, sk := range sks {
			if sk.Op != "var" || !strings.HasPrefix(sk.Str, "sk_") {
				continue
			}
			for _, h := range st.pc {
				if h.Op == "<" && h.Args[0] == sk {
					if x, ok := minusOne(h.Args[1]); ok && !mentions(x, sk) {
						// case A: sk < x
						a := st.clone()
						a.assume(Lt(sk, x))
						ob.Cases = append(ob.Cases, obCase{pc: append([]*Term(nil), a.pc...), goal: goal, cut: st.lastCut, cands: cands})
						// case B: sk == x
						m := map[*Term]*Term{sk: x}
						var pcB []*Term
						for _, t := range st.pc {
							if u := Subst(t, m); !u.IsTrue() {
								pcB = append(pcB, u)
							}
						}
						candsB := append(append([]*Term(nil), cands...), x)
						ob.Cases = append(ob.Cases, obCase{pc: pcB, goal: Subst(goal, m), cut: st.lastCut, cands: candsB})
						return
					}
				}
			}
		}
	}
	// "this very key" split: a skolem key that some hypothesis compares with a particular key X (the key of the
	// current map iteration, typically) is considered separately as X itself and as any other key
	if kind == "inv" || kind == "post" {
		for _, sk := range sks {
			if sk.Op != "var" || !strings.HasPrefix(sk.Str, "sk_") || sk.Sort == SInt || sk.Sort == SBool {
				continue
			}
			var X *Term
			var find func(t *Term)
			seenT := map[*Term]bool{}
			find = func(t *Term) {
				if X != nil || seenT[t] {
					return
				}
				seenT[t] = true
				if t.Op == "=" && len(t.Args) == 2 {
					for side := 0; side < 2; side++ {
						if t.Args[side] == sk && !t.Args[1-side].open && !mentions(t.Args[1-side], sk) && t.Args[1-side].Op == "var" {
							X = t.Args[1-side]
							return
						}
					}
				}
				for _, a := range t.Args {
					find(a)
				}
			}
			for _, h := range st.pc {
				find(h)
			}
			if X == nil {
				// the key of a running iteration over a map of unknown contents
				best := 0
				for _, it := range st.iters {
					if it.curKey != nil && it.curKey.Sort == sk.Sort && it.seq > best {
						X, best = it.curKey, it.seq
					}
				}
			}
			if X == nil {
				continue
			}
			a := st.clone()
			a.assume(Not(Eq(sk, X)))
			ob.Cases = append(ob.Cases, obCase{pc: append([]*Term(nil), a.pc...), goal: goal, cut: st.lastCut, cands: cands})
			m := map[*Term]*Term{sk: X}
			var pcB []*Term
			for _, t := range st.pc {
				if u := Subst(t, m); !u.IsTrue() {
					pcB = append(pcB, u)
				}
			}
			candsB := append(append([]*Term(nil), cands...), X)
			ob.Cases = append(ob.Cases, obCase{pc: pcB, goal: underFacts(pcB, Subst(goal, m)), cut: st.lastCut, cands: candsB})
			return
		}
	}
	ob.Cases = append(ob.Cases, obCase{pc: append([]*Term(nil), st.pc...), goal: goal, cut: st.lastCut, cands: cands})
}

// minusOne: t == x + 1 for some x.
func minusOne(t *Term) (*Term, bool) {
	if t.Op == "+" && len(t.Args) == 2 && t.Args[1].IsInt() && t.Args[1].Int.Cmp(big.NewInt(1)) >= 0 {
		return Sub(t, IntLit(1)), true
	}
	return nil, false
}

func skolemise(g *Term, sks *[]*Term) *Term {
	if g.Op == "not" && g.Args[0].Op == "exists" {
		ex := g.Args[0]
		return skolemise(Forall(ex.Bound, Not(ex.Args[0])), sks)
	}
	switch g.Op {
	case "forall":
		m := map[*Term]*Term{}
		for _, b := range g.Bound {
			sk := Fresh("sk_"+strings.TrimRight(b.Str, "$0123456789"), b.Sort)
			m[b] = sk
			*sks = append(*sks, sk)
		}
		return skolemise(Subst(g.Args[0], m), sks)
	case "and":
		if !cover(g) {
			return g
		}
		args := make([]*Term, len(g.Args))
		for i, a := range g.Args {
			args[i] = skolemise(a, sks)
		}
		return And(args...)
	case "=>":
		return Implies(g.Args[0], skolemise(g.Args[1], sks))
	}
	return g
}

// exSkolem replaces existential quantifiers of a hypothesis by fresh constants.
func exSkolem(h *Term, sks *[]*Term) *Term {
	switch h.Op {
	case "exists":
		m := map[*Term]*Term{}
		for _, b := range h.Bound {
			sk := Fresh("ex_"+strings.TrimRight(b.Str, "$q0123456789"), b.Sort)
			m[b] = sk
			*sks = append(*sks, sk)
		}
		return exSkolem(Subst(h.Args[0], m), sks)
	case "and":
		args := make([]*Term, len(h.Args))
		for i, a := range h.Args {
			args[i] = exSkolem(a, sks)
		}
		return And(args...)
	}
	return h
}

// cover: conjunctions are skolemised conjunct by conjunct (each gets its own constants).
func cover(g *Term) bool { return true }

// ---- loops ----

type loopInfo struct {
	headers map[int]int          // block index -> loop ordinal
	members map[int]map[int]bool // header index -> blocks in loop
}

func (v *Verifier) loopsOf(fn *ssa.Function) *loopInfo {
	if li, ok := v.loops[fn]; ok {
		return li
	}
	li := &loopInfo{headers: map[int]int{}, members: map[int]map[int]bool{}}
	var hs []int
	for _, b := range fn.Blocks {
		for _, s := range b.Succs {
			if s.Dominates(b) {
				// back edge b -> s
				if _, ok := li.members[s.Index]; !ok {
					li.members[s.Index] = map[int]bool{s.Index: true}
					hs = append(hs, s.Index)
				}
				// natural loop: all blocks that reach b without passing s
				work := []*ssa.BasicBlock{b}
				for len(work) > 0 {
					x := work[len(work)-1]
					work = work[:len(work)-1]
					if li.members[s.Index][x.Index] {
						continue
					}
					li.members[s.Index][x.Index] = true
					work = append(work, x.Preds...)
				}
			}
		}
	}
	sort.Ints(hs)
	for i, h := range hs {
		li.headers[h] = i
	}
	v.loops[fn] = li
	return li
}

// ---- values ----

func (v *Verifier) globalRef(g *ssa.Global) *Term {
	if r, ok := v.globals[g]; ok {
		return r
	}
	v.gnext++
	r := IntLit(v.gnext)
	v.globals[g] = r
	return r
}

func constTerm(c *ssa.Const) *Term {
	T := c.Type()
	if c.Value == nil {
		return zeroTerm(sortOf(T))
	}
	switch c.Value.Kind() {
	case constant.Bool:
		return BoolLit(constant.BoolVal(c.Value))
	case constant.String:
		return StrLit(constant.StringVal(c.Value))
	case constant.Int:
		bi, _ := new(big.Int).SetString(c.Value.ExactString(), 10)
		if isFloat(T) {
			return RealLit(bi.String())
		}
		return IntBig(bi)
	case constant.Float:
		if isFloat(T) {
			r, _ := new(big.Rat).SetString(c.Value.ExactString())
			if r.IsInt() {
				return RealLit(r.Num().String())
			}
			return RealLit(r.Num().String() + "/" + r.Denom().String())
		}
		bi, _ := new(big.Int).SetString(constant.ToInt(c.Value).ExactString(), 10)
		return IntBig(bi)
	}
	unsup("constant %v", c)
	return nil
}

func (v *Verifier) val(st *State, x ssa.Value) *Term {
	switch x := x.(type) {
	case *ssa.Const:
		return constTerm(x)
	case *ssa.Global:
		return v.globalRef(x)
	case *ssa.Function:
		return closureID(x, nil)
	case *ssa.FreeVar:
		fr := st.top()
		for i, fv := range fr.fn.FreeVars {
			if fv == x {
				return fr.bindings[i]
			}
		}
		unsup("free var %s unbound", x.Name())
	case *ssa.Builtin:
		unsup("builtin as value")
	}
	t, ok := st.env[x]
	if !ok {
		unsup("value %s (%T) undefined in %s", x.Name(), x, st.top().fn)
	}
	return t
}

func wrapInt(t *Term, T types.Type) *Term {
	bits, signed, ok := intWidth(T)
	if !ok {
		return t
	}
	m := new(big.Int).Lsh(big.NewInt(1), uint(bits))
	if t.IsInt() {
		r := new(big.Int).Mod(t.Int, m)
		if signed && r.Cmp(new(big.Int).Rsh(m, 1)) >= 0 {
			r.Sub(r, m)
		}
		return IntBig(r)
	}
	if !signed {
		return SMod(t, IntBig(m))
	}
	half := new(big.Int).Rsh(m, 1)
	return Sub(SMod(Add(t, IntBig(half)), IntBig(m)), IntBig(half))
}

func elemType(T types.Type) types.Type {
	switch u := T.Underlying().(type) {
	case *types.Pointer:
		return u.Elem()
	case *types.Slice:
		return u.Elem()
	case *types.Array:
		return u.Elem()
	case *types.Map:
		return u.Elem()
	}
	panic("elemType " + T.String())
}

// ---- exploration ----

type pathEnd struct{}

func (v *Verifier) explore(st *State) {
	v.paths++
	if v.paths > v.maxPath {
		unsup("path cap %d exceeded", v.maxPath)
	}
	for {
		fr := st.top()
		if fr.idx >= len(fr.block.Instrs) {
			unsup("fell off block")
		}
		instr := fr.block.Instrs[fr.idx]
		fr.idx++
		if !v.step(st, instr) {
			return
		}
	}
}

func (v *Verifier) feasible(st *State, extra *Term) bool {
	if extra.IsFalse() {
		return false
	}
	if v.noPrune || v.inc == nil {
		return true
	}
	return v.inc.Feasible(st.pc, extra)
}

// jump moves to block b; returns false if the path ended.
func (v *Verifier) jump(st *State, b *ssa.BasicBlock) bool {
	fr := st.top()
	from := fr.block
	fr.prev = from
	fr.block = b
	fr.idx = 0
	// phis (simultaneous assignment)
	var phis []*ssa.Phi
	var vals []*Term
	for _, in := range b.Instrs {
		p, ok := in.(*ssa.Phi)
		if !ok {
			break
		}
		for i, pred := range b.Preds {
			if pred == from {
				phis = append(phis, p)
				vals = append(vals, v.val(st, p.Edges[i]))
				break
			}
		}
		fr.idx++
	}
	for i, p := range phis {
		st.env[p] = vals[i]
		if p.Comment != "" && !strings.HasPrefix(p.Comment, "&&") && !strings.HasPrefix(p.Comment, "||") && p.Comment != "rangeindex" {
			fr.named = setNamed(fr.named, p.Comment, vals[i], p.Type())
		}
	}
	li := v.loopsOf(fr.fn)
	ord, isHeader := li.headers[b.Index]
	if !isHeader {
		return true
	}
	back := li.members[b.Index][from.Index]
	if fr.barrier != nil && fr.barrier.header == b && back {
		fr.barrier.onBack(st)
		return false
	}
	var spec *LoopSpec
	specFr := fr // the frame whose variables the loop's clauses speak of
	if c := v.contractFor(fr.fn); c != nil && c.Loops != nil {
		spec = c.Loops[ord]
	}
	if spec == nil && v.topC != nil && len(st.frames) > 1 {
		if m := v.topC.InlinedLoops[funcKey(fr.fn)]; m != nil && m[ord] != nil {
			// invariants supplied by the function under verification for a loop of a callee inlined into it
			spec = m[ord]
			specFr = st.frames[0]
		}
	}
	if spec == nil && !st.initMod && v.topC != nil && v.top != nil && len(st.frames) > 1 && fr.fn.Pkg == v.top.Pkg && v.P.Contracts[funcKey(fr.fn)] == nil && os.Getenv("GOVC_NO_ORPHAN") == "" {
		// A loop of a helper without contract of its own, inlined into the function under verification, while
		// that function's contract has clauses for more loops than the function has now: the loop was moved into
		// the helper. The left-over clauses (in order) are tried on it; they are checked like any others.
		if sp := v.orphanLoopSpec(fr.fn, ord); sp != nil {
			spec = sp
			specFr = st.frames[0]
		}
	}
	if spec == nil || st.initMod {
		fr.visits[b.Index]++
		if fr.visits[b.Index] > 400 || (fr.visits[b.Index] > 32 && !v.fnStart.IsZero() && time.Since(v.fnStart) > 4*time.Minute) {
			// (the second bound: unrolling a loop whose tests the solver has to decide one by one can take hours)
			unsup("loop %d of %s needs an invariant (no concrete bound)", ord, fr.fn)
		}
		return true
	}
	name := fmt.Sprintf("%s/loop%d", v.fnLabel(st), ord)
	env := v.specEnv(st, specFr)
	if specFr != fr {
		env.fr2 = fr
	}
	if !back {
		for i, inv := range spec.Invariants {
			on := fmt.Sprintf("inv:%s:init#%d", name, i+1)
			if g := v.evalInv(env, inv, on); g != nil {
				v.addOb(on, "inv", inv.Text, st, g, false)
			}
		}
		ci := &cutInfo{phis: map[*ssa.Phi]*Term{}, spec: spec, ordinal: ord, modifies: map[string]bool{}}
		for _, p := range phis {
			f := Fresh(fr.fn.Name()+"_"+p.Comment+"_"+p.Name(), sortOf(p.Type()))
			st.env[p] = f
			ci.phis[p] = f
			if p.Comment != "" && !strings.HasPrefix(p.Comment, "&&") && !strings.HasPrefix(p.Comment, "||") && p.Comment != "rangeindex" {
				fr.named = setNamed(fr.named, p.Comment, f, p.Type())
			}
			for _, t := range typeInv(f, p.Type(), 0) {
				st.assume(t)
			}
		}
		// a map iteration of unknown contents starts over from an arbitrary set of keys already handed out
		for _, hin := range b.Instrs {
			if nx, ok := hin.(*ssa.Next); ok {
				if rg, ok := nx.Iter.(*ssa.Range); ok {
					if it := st.iters[rg]; it != nil && it.visited != nil {
						ks := it.msort.Fields[0].Sort.Key
						it.visited = Fresh("mapseen", ArraySort(ks, SBool))
						it.count = Fresh("mapcount", SInt)
						st.assume(Ge(it.count, IntLit(0)))
						it.curKey = nil
						mo := Select(st.getHeap(it.msort), it.mapRef)
						j := BVar("k$seen", ks)
						st.assume(Forall([]*Term{j}, Implies(Select(it.visited, j), Select(Sel(mo, 0), j))))
					}
				}
			}
		}
		// heap havoc
		v.havocked = map[*Term]bool{}
		for _, f := range ci.phis {
			v.havocked[f] = true
		}
		for _, m := range spec.Modifies {
			v.havocNamed(st, specFr, m)
		}
		lwBefore := st.lw()
		for _, m := range spec.Allocs {
			cell := v.cellSortByName(v.pkgOf(specFr.fn), m)
			st.setHeap(cell, HeapExt(st.getHeap(cell), lwBefore))
		}
		st.havocLW()
		ci.heap = map[string]*Term{}
		for k, h := range st.heap {
			ci.heap[k] = h
		}
		ci.nAlloc = len(st.allocd)
		ci.lwAt = st.lw()
		st.lastCut = len(st.pc)
		ci.pcLen = len(st.pc)
		env = v.specEnv(st, specFr)
		if specFr != fr {
			env.fr2 = fr
		}
		for _, inv := range spec.Invariants {
			if g := v.evalInv(env, inv, ""); g != nil {
				st.assume(g)
			}
		}
		// a loop entered only through guarded edges (the shape range-over-int compiles to: the test sits before the
		// head and at the end of the body): the guard, read on the head's own variables, holds whenever the head is
		// reached - every edge into it was taken with the guard true on the values the phis then receive
		if g := v.headGuard(st, b); g != nil {
			st.assume(g)
		}
		{
			hv := v.havocked
			delete(hv, nil)
			for _, f := range ci.phis {
				delete(hv, f) // loop counters stay variables (the invariants bound them)
			}
			v.propagateDefs(st, hv, ci.pcLen)
			v.havocked = nil
		}
		if spec.Decreases != nil {
			ci.measure = env.eval(spec.Decreases.Expr).T
		}
		fr.cuts[b.Index] = ci
		fr.visits[b.Index] = 0
		return true
	}
	ci := fr.cuts[b.Index]
	if ci == nil {
		unsup("back edge into uncut loop")
	}
	st.lastCut = ci.pcLen // this loop's own cut, not an inner loop's
	for i, inv := range spec.Invariants {
		on := fmt.Sprintf("inv:%s:keep#%d", name, i+1)
		if g := v.evalInv(env, inv, on); g != nil {
			v.addOb(on, "inv", inv.Text, st, g, false)
		}
	}
	if spec.Decreases != nil {
		m := env.eval(spec.Decreases.Expr).T
		v.addOb(fmt.Sprintf("term:%s", name), "term", "decreases "+spec.Decreases.Text, st,
			And(Ge(ci.measure, IntLit(0)), Lt(m, ci.measure)), false)
	}
	// loop frame: heaps not named in modifies must be unchanged on old cells
	v.frameCheck(st, ci.heap, st.allocd[ci.nAlloc:], ci.lwAt, spec.Modifies, specFr, "frame:"+name, false)
	return false
}

func (v *Verifier) orphanLoopSpec(fn *ssa.Function, ord int) *LoopSpec {
	key := fmt.Sprintf("%s/%d", funcKey(fn), ord)
	if v.orphanFor == nil || v.orphanTop != v.top {
		v.orphanFor, v.orphanTop = map[string]*LoopSpec{}, v.top
	}
	if sp, ok := v.orphanFor[key]; ok {
		return sp
	}
	n := len(v.loopsOf(v.top).headers)
	var ords []int
	for o := range v.topC.Loops {
		if o >= n {
			ords = append(ords, o)
		}
	}
	sort.Ints(ords)
	var sp *LoopSpec
	if k := len(v.orphanFor); k < len(ords) {
		sp = v.topC.Loops[ords[k]]
	}
	v.orphanFor[key] = sp
	return sp
}

// headGuard: if every edge into loop head b leaves an `if x OP y` whose true branch is b, and the comparisons agree
// once the values flowing into b's phis are replaced by the phis themselves, that comparison (over the state's
// current values of the phis) is returned.
func (v *Verifier) headGuard(st *State, b *ssa.BasicBlock) *Term {
	var agreed *Term
	for pi, pred := range b.Preds {
		if len(pred.Instrs) == 0 {
			return nil
		}
		iff, ok := pred.Instrs[len(pred.Instrs)-1].(*ssa.If)
		if !ok || len(pred.Succs) != 2 || pred.Succs[0] != b || pred.Succs[1] == b {
			return nil
		}
		cmp, ok := iff.Cond.(*ssa.BinOp)
		if !ok {
			return nil
		}
		operand := func(x ssa.Value) *Term {
			for _, in := range b.Instrs {
				p, ok := in.(*ssa.Phi)
				if !ok {
					break
				}
				same := pi < len(p.Edges) && p.Edges[pi] == x
				if !same && pi < len(p.Edges) {
					// constants are not shared between uses: equal ones of the same type are the same value
					if c1, ok := p.Edges[pi].(*ssa.Const); ok {
						if c2, ok := x.(*ssa.Const); ok && c1.Value != nil && c2.Value != nil && c1.Value.String() == c2.Value.String() && types.Identical(c1.Type(), c2.Type()) {
							same = true
						}
					}
				}
				if same {
					if t, ok := st.env[p]; ok {
						return t
					}
				}
			}
			if _, isConst := x.(*ssa.Const); isConst {
				return v.val(st, x)
			}
			if t, ok := st.env[x]; ok {
				// a value computed before the loop (it must not change inside it: only values defined outside)
				if in, ok := x.(ssa.Instruction); ok && v.loopsOf(b.Parent()).members[b.Index][in.Block().Index] {
					return nil
				}
				return t
			}
			return nil
		}
		x, y := operand(cmp.X), operand(cmp.Y)
		if x == nil || y == nil || x.Sort != SInt || y.Sort != SInt {
			return nil
		}
		var t *Term
		switch cmp.Op {
		case token.LSS:
			t = Lt(x, y)
		case token.LEQ:
			t = Le(x, y)
		case token.GTR:
			t = Lt(y, x)
		case token.GEQ:
			t = Le(y, x)
		default:
			return nil
		}
		if agreed != nil && agreed != t {
			return nil
		}
		agreed = t
	}
	return agreed
}

// havocNamed havocs a heap (by Go type name) or a single local cell (by variable name).
// allocOnStack finds the local variable name (an alloc) in fr's function or, failing that, in a callee inlined
// below it, innermost first; the alloc must have been executed on this path.
func allocOnStack(st *State, fr *Frame, name string) *ssa.Alloc {
	if a := findAlloc(fr.fn, name); a != nil {
		if _, ok := st.env[a]; ok {
			return a
		}
	}
	for i := len(st.frames) - 1; i >= 1; i-- {
		if a := findAlloc(st.frames[i].fn, name); a != nil {
			if _, ok := st.env[a]; ok {
				return a
			}
		}
	}
	return findAlloc(fr.fn, name)
}

func (v *Verifier) havocNamed(st *State, fr *Frame, name string) {
	name = v.renamedTarget(st, fr, name)
	if a := allocOnStack(st, fr, name); a != nil {
		cell := sortOf(elemType(a.Type()))
		ref := v.val(st, a)
		f := Fresh(name, cell)
		if v.havocked != nil {
			v.havocked[f] = true
		}
		for _, t := range typeInv(f, elemType(a.Type()), 0) {
			st.assume(t)
		}
		st.setHeap(cell, Store(st.getHeap(cell), ref, f))
		return
	}
	menv := v.specEnv(st, fr)
	if st.top() != fr {
		menv.fr2 = st.top()
	}
	if cell, ref, et, ok := evalModTarget(menv, name); ok {
		f := Fresh("cell", cell)
		if v.havocked != nil {
			v.havocked[f] = true
		}
		if et != nil {
			for _, t := range typeInv(f, et, 0) {
				st.assume(t)
			}
		}
		st.setHeap(cell, Store(st.getHeap(cell), ref, f))
		return
	}
	if v.goneLocal(fr, name) {
		return
	}
	cell := v.cellSortByName(v.pkgOf(fr.fn), name)
	nh := Fresh(heapName(cell), heapSort(cell))
	if v.havocked != nil {
		v.havocked[nh] = true
	}
	st.setHeap(cell, nh)
}

// renamedTarget: a modifies target naming a local variable that the function (or an inlined callee on the stack)
// now declares under another name (names.go).
func (v *Verifier) renamedTarget(st *State, fr *Frame, name string) string {
	if name == "" || strings.ContainsAny(name, ".[]*") {
		return name
	}
	fns := []*ssa.Function{fr.fn}
	for i := len(st.frames) - 1; i >= 1; i-- {
		fns = append(fns, st.frames[i].fn)
	}
	for _, fn := range fns {
		if nn := renamesOf(v.P, fn)[name]; nn != "" {
			return nn
		}
	}
	return name
}

// goneLocal: a modifies target written like a local variable (a plain lower-case identifier) that is neither a
// variable of the function any more nor a type. Nothing is havocked and nothing is permitted for it: a write the
// clause was meant to cover then shows up as a frame obligation instead of ending the function as undecided.
func (v *Verifier) goneLocal(fr *Frame, name string) bool {
	if name == "" || strings.ContainsAny(name, ".[]*") || !(name[0] >= 'a' && name[0] <= 'z') {
		return false
	}
	switch name {
	case "int", "uint", "uint8", "uint32", "int64", "bool", "string", "float64":
		return false
	}
	if pkg := v.pkgOf(fr.fn); pkg != nil && pkg.Scope().Lookup(name) != nil {
		return false
	}
	return true
}

func (v *Verifier) pkgOf(fn *ssa.Function) *types.Package {
	if c := v.contractFor(fn); c != nil {
		return c.Pkg.Types
	}
	for f := fn; f != nil; f = f.Parent() {
		if f.Pkg != nil {
			return f.Pkg.Pkg
		}
		if o := f.Origin(); o != nil && o.Pkg != nil {
			return o.Pkg.Pkg
		}
	}
	return nil
}

func findAlloc(fn *ssa.Function, name string) *ssa.Alloc {
	for _, b := range fn.Blocks {
		for _, in := range b.Instrs {
			if a, ok := in.(*ssa.Alloc); ok && a.Comment == name {
				return a
			}
		}
	}
	return nil
}

// cellSortByName resolves "Track", "midix.Track", "[]Track" style names to a heap cell sort.
func (v *Verifier) cellSortByName(pkg0 *types.Package, name string) *Sort {
	arr := false
	if strings.HasPrefix(name, "[]") {
		arr = true
		name = name[2:]
	}
	if strings.HasPrefix(name, "*") {
		if arr {
			return ArraySort(SInt, SInt)
		}
		return SInt
	}
	if strings.HasPrefix(name, "map[") {
		// map[K]V
		depth, j := 0, -1
		for i, c := range name {
			if c == '[' {
				depth++
			}
			if c == ']' {
				depth--
				if depth == 0 {
					j = i
					break
				}
			}
		}
		if j > 0 {
			ks := v.cellSortByName(pkg0, name[4:j])
			vs := v.cellSortByName(pkg0, name[j+1:])
			return mapObjSort(ks, vs)
		}
	}
	var T types.Type
	switch name {
	case "int", "uint", "uint8", "uint32", "int64":
		T = types.Typ[types.Int]
	case "bool":
		T = types.Typ[types.Bool]
	case "string":
		T = types.Typ[types.String]
	case "float64":
		T = types.Typ[types.Float64]
	case "Slice":
		if arr {
			return ArraySort(SInt, SSlice)
		}
		return SSlice
	case "Iface":
		if arr {
			return ArraySort(SInt, SIface)
		}
		return SIface
	default:
		pkg := pkg0
		if i := strings.Index(name, "."); i >= 0 {
			pn := name[:i]
			name = name[i+1:]
			found := false
			for _, p := range v.P.Prog.AllPackages() {
				if p.Pkg.Name() == pn && (inRepo(p.Pkg)) {
					pkg = p.Pkg
					found = true
				}
			}
			if !found && pkg0 != nil {
				// a dependency, as imported by the contract's package
				for _, ip := range pkg0.Imports() {
					if ip.Name() == pn {
						pkg = ip
					}
				}
			}
		}
		obj := pkg.Scope().Lookup(name)
		if obj == nil {
			unsup("unknown type %s in modifies", name)
		}
		T = obj.Type()
		if _, isMap := T.Underlying().(*types.Map); isMap {
			return mapSortOf(T)
		}
	}
	s := sortOf(T)
	if arr {
		return ArraySort(SInt, s)
	}
	return s
}

// frameCheck emits frame obligations for heaps changed relative to base.
func (v *Verifier) frameCheck(st *State, base map[string]*Term, fresh []*Term, lwAt *Term, allowed []string, fr *Frame, obName string, atEntry bool) {
	allow := map[string]bool{}
	cells := map[string][]*Term{}
	for _, a := range allowed {
		a = v.renamedTarget(st, fr, a)
		if al := allocOnStack(st, fr, a); al != nil {
			cell := sortOf(elemType(al.Type()))
			cells[heapName(cell)] = append(cells[heapName(cell)], v.val(st, al))
			continue
		}
		isParam := false
		for _, p := range fr.fn.Params {
			if p.Name() == a {
				if pt, ok := p.Type().Underlying().(*types.Pointer); ok {
					cell := sortOf(pt.Elem())
					pv := st.env[p]
					if v.entry != nil && len(st.frames) == 1 {
						pv = v.entry.env[p]
					}
					cells[heapName(cell)] = append(cells[heapName(cell)], pv)
					isParam = true
				}
			}
		}
		if isParam {
			continue
		}
		{
			var env *SpecEnv
			if atEntry && v.entry != nil && len(st.frames) == 1 {
				env = v.entryEnv()
			} else {
				env = v.specEnv(st, fr)
				if st.top() != fr {
					env.fr2 = st.top()
				}
			}
			if cell, ref, _, ok := evalModTarget(env, a); ok {
				cells[heapName(cell)] = append(cells[heapName(cell)], ref)
				continue
			}
		}
		if v.goneLocal(fr, a) {
			continue
		}
		allow[heapName(v.cellSortByName(v.pkgOf(fr.fn), a))] = true
	}
	freshSet := map[*Term]bool{}
	for _, f := range fresh {
		freshSet[f] = true
	}
	var names []string
	for n := range st.heap {
		names = append(names, n)
	}
	sort.Strings(names)
	for _, n := range names {
		if allow[n] {
			continue
		}
		h := st.heap[n]
		b, ok := base[n]
		if !ok {
			b = Var(n+"@0", h.Sort)
		}
		skip := map[*Term]bool{}
		for _, c := range cells[n] {
			skip[c] = true
		}
		strip := func(x *Term) *Term {
			for {
				if x.Op == "store" && (freshSet[x.Args[1]] || skip[x.Args[1]]) {
					x = x.Args[0]
					continue
				}
				if x.Op == "hext" {
					// allocation-only extension: cells at or above its water mark are the old ones
					x = x.Args[0]
					continue
				}
				break
			}
			return x
		}
		if strip(h) == strip(b) {
			continue
		}
		r := BVar("r$", SInt)
		conds := []*Term{Ge(r, lwAt)}
		for c := range skip {
			conds = append(conds, Neq(r, c))
		}
		g := Forall([]*Term{r}, Implies(And(conds...), Eq(Select(h, r), Select(b, r))))
		v.addOb(obName+":"+n, "frame", "cells of "+n+" allocated before are unchanged", st, g, false)
	}
}

func (v *Verifier) fnLabel(st *State) string {
	var parts []string
	for _, f := range st.frames {
		parts = append(parts, funcKey(f.fn))
	}
	return strings.Join(parts, ">")
}

func (v *Verifier) contractFor(fn *ssa.Function) *Contract {
	k := funcKey(fn)
	if k == "" {
		return nil
	}
	return v.P.Contracts[k]
}

// siteOrdinal numbers instructions of a kind within their function.
func siteOrdinal(in ssa.Instruction) int {
	n := 0
	for _, b := range in.Parent().Blocks {
		for _, x := range b.Instrs {
			if x == in {
				return n
			}
			n++
		}
	}
	return -1
}

func (v *Verifier) safety(st *State, in ssa.Instruction, what string, goal *Term) {
	c := v.topC
	if c != nil && c.NoSafety {
		return
	}
	if st.initMod {
		if goal.IsFalse() {
			unsup("panic during package initialisation: %s at %s", what, v.P.Prog.Fset.Position(in.Pos()))
		}
		return
	}
	name := fmt.Sprintf("safe:%s:%s@%d", v.fnLabel(st), what, siteOrdinal(in))
	v.addOb(name, "safe", what+" at "+v.P.Prog.Fset.Position(in.Pos()).String(), st, goal, false)
	st.assume(goal)
}

func (v *Verifier) step(st *State, instr ssa.Instruction) bool {
	fr := st.top()
	switch in := instr.(type) {
	case *ssa.DebugRef:
		if !in.IsAddr {
			if obj, _ := in.Object().(*types.Var); obj != nil && !obj.IsField() {
				{
					if t, ok := st.env[in.X]; ok {
						fr.named = setNamed(fr.named, obj.Name(), t, in.X.Type())
					} else if c, ok := in.X.(*ssa.Const); ok && !(c.Value == nil && isMapType(c.Type())) {
						// (the definition of a variable initialised with a map literal is reported as a nil constant)
						fr.named = setNamed(fr.named, obj.Name(), constTerm(c), c.Type())
					}
				}
			}
		}
		return true
	case *ssa.Alloc:
		T := elemType(in.Type())
		cell := sortOf(T)
		st.env[in] = st.alloc(cell, zeroTerm(cell))
		return true
	case *ssa.Store:
		T := elemType(in.Addr.Type())
		addr := v.val(st, in.Addr)
		v.nilCheck(st, in, addr)
		st.store(addr, sortOf(T), v.val(st, in.Val))
		return true
	case *ssa.UnOp:
		x := v.val(st, in.X)
		switch in.Op {
		case token.MUL:
			v.nilCheck(st, in, x)
			r := st.load(x, sortOf(in.Type()))
			st.env[in] = r
			if !r.IsLit() && r.Op != "mk" {
				for _, t := range typeInv(r, in.Type(), 0) {
					st.assume(t)
				}
				for _, t := range st.refBound(r, in.Type(), 0) {
					st.assume(t)
				}
			}
		case token.NOT:
			st.env[in] = Not(x)
		case token.SUB:
			if x.Sort == SReal {
				st.env[in] = mk("-", SReal, x)
			} else {
				st.env[in] = wrapInt(Neg(x), in.Type())
			}
		default:
			unsup("unop %s", in.Op)
		}
		return true
	case *ssa.BinOp:
		st.env[in] = v.binop(st, in)
		return true
	case *ssa.FieldAddr:
		p := v.val(st, in.X)
		v.nilCheck(st, in, p)
		st.env[in] = extendLoc(p, sortOf(elemType(in.X.Type())), pathElem{field: in.Field})
		return true
	case *ssa.Field:
		st.env[in] = Sel(v.val(st, in.X), in.Field)
		return true
	case *ssa.IndexAddr:
		x := v.val(st, in.X)
		i := v.val(st, in.Index)
		switch u := in.X.Type().Underlying().(type) {
		case *types.Slice:
			es := sortOf(u.Elem())
			v.safety(st, in, "index", And(Ge(i, IntLit(0)), Lt(i, Sel(x, 2))))
			st.noteIndex(i)
			st.env[in] = mkLoc(ArraySort(SInt, es), Sel(x, 0), []pathElem{{field: -1, index: Add(Sel(x, 1), i)}})
		case *types.Pointer:
			at := u.Elem().Underlying().(*types.Array)
			v.nilCheck(st, in, x)
			v.safety(st, in, "index", And(Ge(i, IntLit(0)), Lt(i, IntLit(at.Len()))))
			st.env[in] = extendLoc(x, sortOf(u.Elem()), pathElem{field: -1, index: i})
		default:
			unsup("IndexAddr on %s", in.X.Type())
		}
		return true
	case *ssa.Index:
		x := v.val(st, in.X)
		i := v.val(st, in.Index)
		switch u := in.X.Type().Underlying().(type) {
		case *types.Array:
			v.safety(st, in, "index", And(Ge(i, IntLit(0)), Lt(i, IntLit(u.Len()))))
			st.env[in] = Select(x, i)
		default:
			unsup("Index on %s", in.X.Type())
		}
		return true
	case *ssa.Lookup:
		v.lookup(st, in)
		return !st.dead
	case *ssa.Extract:
		t := v.val(st, in.Tuple)
		st.env[in] = t.Args[in.Index]
		return true
	case *ssa.ChangeType:
		st.env[in] = v.val(st, in.X)
		return true
	case *ssa.ChangeInterface:
		st.env[in] = v.val(st, in.X)
		return true
	case *ssa.Convert:
		st.env[in] = v.convert(st, in)
		return true
	case *ssa.MakeInterface:
		st.env[in] = v.makeIface(st, v.val(st, in.X), in.X.Type())
		return true
	case *ssa.TypeAssert:
		return v.typeAssert(st, in)
	case *ssa.MakeClosure:
		var bs []*Term
		for _, b := range in.Bindings {
			bs = append(bs, v.val(st, b))
		}
		st.env[in] = closureID(in.Fn.(*ssa.Function), bs)
		return true
	case *ssa.MakeMap:
		ms := mapSortOf(in.Type())
		st.env[in] = st.alloc(ms, mapEmpty(ms))
		return true
	case *ssa.MapUpdate:
		m := v.val(st, in.Map)
		ms := mapSortOf(in.Map.Type())
		v.safety(st, in, "nilmap", Neq(m, IntLit(0)))
		h := st.getHeap(ms)
		o := Select(h, m)
		st.setHeap(ms, Store(h, m, mapUpdate(o, v.val(st, in.Key), v.val(st, in.Value))))
		return true
	case *ssa.MakeSlice:
		n := v.val(st, in.Len)
		es := sortOf(elemType(in.Type()))
		as := ArraySort(SInt, es)
		v.safety(st, in, "makeslice", Ge(n, IntLit(0)))
		r := st.alloc(as, zeroTerm(as))
		st.env[in] = Mk(SSlice, r, IntLit(0), n)
		return true
	case *ssa.Slice:
		st.env[in] = v.sliceOp(st, in)
		return true
	case *ssa.Range:
		v.rangeInit(st, in)
		return true
	case *ssa.Next:
		return v.next(st, in)
	case *ssa.Call:
		return v.call(st, in)
	case *ssa.Phi:
		// handled in jump; entry block has none
		return true
	case *ssa.Jump:
		return v.jump(st, fr.block.Succs[0])
	case *ssa.If:
		c := v.val(st, in.Cond)
		tb, fb := fr.block.Succs[0], fr.block.Succs[1]
		if c.IsTrue() {
			return v.jump(st, tb)
		}
		if c.IsFalse() {
			return v.jump(st, fb)
		}
		if st.initMod {
			unsup("package initialiser branches on a non-constant condition at %s: %s", v.P.Prog.Fset.Position(in.Pos()), truncate(c.String(), 300))
		}
		ft := v.feasible(st, c)
		ff := v.feasible(st, Not(c))
		if ft && ff {
			s2 := st.clone()
			s2.assume(c)
			if v.jump(s2, tb) {
				v.explore(s2)
			}
			st.assume(Not(c))
			return v.jump(st, fb)
		}
		if ft {
			st.assume(c)
			return v.jump(st, tb)
		}
		if ff {
			st.assume(Not(c))
			return v.jump(st, fb)
		}
		return false
	case *ssa.Return:
		var rs []*Term
		for _, r := range in.Results {
			rs = append(rs, v.val(st, r))
		}
		return v.doReturn(st, rs)
	case *ssa.Panic:
		v.safety(st, in, "panic", TFalse)
		return false
	case *ssa.RunDefers:
		if fr.deferd && !fr.defersExternalOnly {
			unsup("defer in %s", fr.fn)
		}
		return true
	case *ssa.Defer:
		// a deferred call to a dependency's function without results and without arguments that reach the
		// repository's heap runs at return like any other external call: nothing of the model changes
		if callee := in.Call.StaticCallee(); callee != nil && !in.Call.IsInvoke() && !inRepoFn(callee) && len(in.Call.Args) == 0 {
			v.assumeNote("external " + callee.String() + " (deferred): heap assumed unchanged; a panic is not caught by it")
			fr.defersExternalOnly = true
			fr.deferd = true
			return true
		}
		unsup("defer in %s", fr.fn)
	case *ssa.Go:
		unsup("go statement in %s", fr.fn)
	case *ssa.Send, *ssa.Select, *ssa.MakeChan:
		unsup("channel operation in %s", fr.fn)
	}
	unsup("instruction %T in %s", instr, fr.fn)
	return false
}

func (v *Verifier) nilCheck(st *State, in ssa.Instruction, p *Term) {
	ref := p
	if li, ok := p.Extra.(*locInfo); ok {
		ref = li.ref
	}
	if ref.IsInt() {
		if ref.Int.Sign() == 0 {
			v.safety(st, in, "nilderef", TFalse)
		}
		return
	}
	if ref.Op == "-" && len(ref.Args) == 2 && ref.Args[1].IsInt() {
		// lw-relative fresh ref
		return
	}
	v.safety(st, in, "nilderef", Neq(ref, IntLit(0)))
}

func (v *Verifier) binop(st *State, in *ssa.BinOp) *Term {
	x, y := v.val(st, in.X), v.val(st, in.Y)
	T := in.X.Type()
	switch in.Op {
	case token.EQL:
		return Eq(x, y)
	case token.NEQ:
		return Neq(x, y)
	}
	if x.Sort == SString {
		switch in.Op {
		case token.ADD:
			if x.Op == "str" && y.Op == "str" {
				return StrLit(x.Str + y.Str)
			}
			return mk("str.++", SString, x, y)
		case token.LSS:
			return mk("str.<", SBool, x, y)
		}
		unsup("string binop %s", in.Op)
	}
	if x.Sort == SReal {
		switch in.Op {
		case token.ADD:
			return mk("+", SReal, x, y)
		case token.SUB:
			return mk("-", SReal, x, y)
		case token.MUL:
			return realMul(x, y)
		case token.QUO:
			return realDiv(x, y)
		case token.LSS:
			return mk("<", SBool, x, y)
		case token.LEQ:
			return mk("<=", SBool, x, y)
		case token.GTR:
			return mk("<", SBool, y, x)
		case token.GEQ:
			return mk("<=", SBool, y, x)
		}
		unsup("float binop %s", in.Op)
	}
	switch in.Op {
	case token.LSS:
		return Lt(x, y)
	case token.LEQ:
		return Le(x, y)
	case token.GTR:
		return Gt(x, y)
	case token.GEQ:
		return Ge(x, y)
	case token.ADD:
		return wrapInt(Add(x, y), T)
	case token.SUB:
		if _, _, sized := intWidth(T); !sized && isUnsigned(T) {
			v.safety(st, in, "usub", Ge(x, y))
		}
		return wrapInt(Sub(x, y), T)
	case token.MUL:
		return wrapInt(Mul(x, y), T)
	case token.QUO:
		v.safety(st, in, "divzero", Neq(y, IntLit(0)))
		return wrapInt(GoDiv(x, y), T)
	case token.REM:
		v.safety(st, in, "divzero", Neq(y, IntLit(0)))
		return GoRem(x, y)
	}
	if x.IsInt() && y.IsInt() {
		r := new(big.Int)
		switch in.Op {
		case token.AND:
			return IntBig(r.And(x.Int, y.Int))
		case token.OR:
			return IntBig(r.Or(x.Int, y.Int))
		case token.XOR:
			return IntBig(r.Xor(x.Int, y.Int))
		case token.SHL:
			return wrapInt(IntBig(r.Lsh(x.Int, uint(y.Int.Uint64()))), T)
		case token.SHR:
			return IntBig(r.Rsh(x.Int, uint(y.Int.Uint64())))
		}
	}
	unsup("binop %s on symbolic operands", in.Op)
	return nil
}

func (v *Verifier) convert(st *State, in *ssa.Convert) *Term {
	x := v.val(st, in.X)
	from, to := in.X.Type(), in.Type()
	switch {
	case isInteger(from) && isInteger(to):
		if _, _, sized := intWidth(to); !sized && isUnsigned(to) && !isUnsigned(from) {
			v.safety(st, in, "conv-nonneg", Ge(x, IntLit(0)))
		}
		return wrapInt(x, to)
	case isInteger(from) && isFloat(to):
		if x.IsInt() {
			return RealLit(x.Int.String())
		}
		return mk("to_real", SReal, x)
	case isFloat(from) && isInteger(to):
		t := Ite(mk("<=", SBool, RealLit("0"), x), mk("to_int", SInt, x), Neg(mk("to_int", SInt, mk("-", SReal, x))))
		return wrapInt(t, to)
	case isFloat(from) && isFloat(to):
		return x
	case isString(from) && isString(to):
		return x
	}
	if x.IsLit() && isInteger(from) && isString(to) {
		return StrLit(string(rune(x.Int64())))
	}
	v.assumeNote("opaque conversion " + from.String() + " -> " + to.String())
	return Fresh("conv", sortOf(to))
}

func (v *Verifier) makeIface(st *State, x *Term, T types.Type) *Term {
	if _, isIface := T.Underlying().(*types.Interface); isIface {
		return x
	}
	tag := IntLit(typeTag(T))
	s := sortOf(T)
	if s == SInt {
		return Mk(SIface, tag, x)
	}
	ref := st.alloc(s, x)
	return Mk(SIface, tag, ref)
}

func unbox(st *State, x *Term, T types.Type) *Term {
	s := sortOf(T)
	if s == SInt {
		return Sel(x, 1)
	}
	return Select(st.getHeap(s), Sel(x, 1))
}

func (v *Verifier) implementers(it *types.Interface) []int64 {
	var out []int64
	for id, T := range typeTagTypes {
		if types.Implements(T, it) {
			out = append(out, id)
		}
	}
	sort.Slice(out, func(i, j int) bool { return out[i] < out[j] })
	return out
}

func (v *Verifier) typeAssert(st *State, in *ssa.TypeAssert) bool {
	x := v.val(st, in.X)
	tag := Sel(x, 0)
	var cond *Term
	var value func(s *State) *Term
	if it, ok := in.AssertedType.Underlying().(*types.Interface); ok {
		if tag.IsInt() {
			T := typeTagTypes[tag.Int64()]
			cond = BoolLit(T != nil && types.Implements(T, it))
		} else {
			var ds []*Term
			for _, id := range v.implementers(it) {
				ds = append(ds, Eq(tag, IntLit(id)))
			}
			cond = Or(ds...)
			v.assumeNote("type assertion to interface " + in.AssertedType.String() + " decided over the registered dynamic types only")
		}
		value = func(s *State) *Term { return x }
	} else {
		cond = Eq(tag, IntLit(typeTag(in.AssertedType)))
		value = func(s *State) *Term { return unbox(s, x, in.AssertedType) }
	}
	if !in.CommaOk {
		v.safety(st, in, "typeassert", cond)
		st.env[in] = value(st)
		return true
	}
	ft, ff := v.feasible(st, cond), v.feasible(st, Not(cond))
	zero := zeroTerm(sortOf(in.AssertedType))
	if ft && ff {
		s2 := st.clone()
		s2.assume(cond)
		s2.env[in] = mkTuple(value(s2), TTrue)
		v.explore(s2)
		st.assume(Not(cond))
		st.env[in] = mkTuple(zero, TFalse)
		return true
	}
	if ft {
		st.assume(cond)
		st.env[in] = mkTuple(value(st), TTrue)
		return true
	}
	if ff {
		st.assume(Not(cond))
		st.env[in] = mkTuple(zero, TFalse)
		return true
	}
	return false
}

func (v *Verifier) lookup(st *State, in *ssa.Lookup) {
	x := v.val(st, in.X)
	k := v.val(st, in.Index)
	if isString(in.X.Type()) {
		if x.Op == "str" && k.IsInt() {
			i := int(k.Int64())
			if i >= 0 && i < len(x.Str) {
				st.env[in] = IntLit(int64(x.Str[i]))
				return
			}
		}
		unsup("string index on symbolic string")
	}
	ms := mapSortOf(in.X.Type())
	o := Select(st.getHeap(ms), x)
	// finite-domain concretisation: a lookup with a symbolic key in a map whose
	// entries are all known splits into one path per entry plus "absent".
	if es, known := mapKnown[o]; known && !k.ground && len(es) > 1 && len(es) <= 64 && !st.initMod {
		for _, e := range es {
			c := Eq(k, e.k)
			if !v.feasible(st, c) {
				continue
			}
			s2 := st.clone()
			s2.assume(c)
			if in.CommaOk {
				s2.env[in] = mkTuple(e.v, TTrue)
			} else {
				s2.env[in] = e.v
			}
			if k.Op == "var" {
				s2.substVar(k, e.k)
			}
			v.explore(s2)
		}
		var ds []*Term
		for _, e := range es {
			ds = append(ds, Neq(k, e.k))
		}
		st.assume(And(ds...))
		zero := zeroTerm(ms.Fields[1].Sort.Elem)
		if in.CommaOk {
			st.env[in] = mkTuple(zero, TFalse)
		} else {
			st.env[in] = zero
		}
		if !v.feasible(st, TTrue) {
			st.dead = true
		}
		return
	}
	ok := Select(Sel(o, 0), k)
	val := Select(Sel(o, 1), k)
	vs := ms.Fields[1].Sort.Elem
	if !zeroBased(Sel(o, 1)) {
		val = Ite(ok, val, zeroTerm(vs))
	}
	if in.CommaOk {
		st.env[in] = mkTuple(val, ok)
	} else {
		st.env[in] = val
	}
}

func zeroBased(a *Term) bool {
	for a.Op == "store" {
		a = a.Args[0]
	}
	return a.Op == "constarr" && a.Args[0] == zeroTerm(a.Sort.Elem)
}

func (v *Verifier) sliceOp(st *State, in *ssa.Slice) *Term {
	x := v.val(st, in.X)
	var lo, hi *Term
	if in.Low != nil {
		lo = v.val(st, in.Low)
	} else {
		lo = IntLit(0)
	}
	switch u := in.X.Type().Underlying().(type) {
	case *types.Slice:
		if in.High != nil {
			hi = v.val(st, in.High)
		} else {
			hi = Sel(x, 2)
		}
		v.safety(st, in, "slice", And(Le(IntLit(0), lo), Le(lo, hi), Le(hi, Sel(x, 2))))
		return Mk(SSlice, Sel(x, 0), Add(Sel(x, 1), lo), Sub(hi, lo))
	case *types.Pointer:
		at := u.Elem().Underlying().(*types.Array)
		if in.High != nil {
			hi = v.val(st, in.High)
		} else {
			hi = IntLit(at.Len())
		}
		v.safety(st, in, "slice", And(Le(IntLit(0), lo), Le(lo, hi), Le(hi, IntLit(at.Len()))))
		if _, ok := x.Extra.(*locInfo); ok {
			unsup("slice of interior array")
		}
		return Mk(SSlice, x, lo, Sub(hi, lo))
	case *types.Basic:
		if x.Op == "str" && lo.IsInt() && (in.High == nil || v.val(st, in.High).IsInt()) {
			h := int64(len(x.Str))
			if in.High != nil {
				h = v.val(st, in.High).Int64()
			}
			return StrLit(x.Str[lo.Int64():h])
		}
		unsup("string slice on symbolic string")
	}
	unsup("slice of %s", in.X.Type())
	return nil
}

// ---- range / next ----

func (v *Verifier) rangeInit(st *State, in *ssa.Range) {
	x := v.val(st, in.X)
	it := &iterInfo{}
	if isString(in.X.Type()) {
		it.str = x
		if x.Op != "str" {
			unsup("range over symbolic string")
		}
		st.iters[in] = it
		st.env[in] = IntLit(0)
		return
	}
	ms := mapSortOf(in.X.Type())
	o := Select(st.getHeap(ms), x)
	es, ok := mapKnown[o]
	it.mapRef = x
	it.msort = ms
	if ok {
		it.known = true
		it.entries = es
	}
	it.visited = ConstArr(ArraySort(ms.Fields[0].Sort.Key, SBool), TFalse)
	it.count = IntLit(0)
	iterSeq++
	it.seq = iterSeq
	st.iters[in] = it
	st.env[in] = IntLit(0)
}

func (v *Verifier) next(st *State, in *ssa.Next) bool {
	rng := in.Iter.(*ssa.Range)
	it := st.iters[rng]
	tup := in.Type().(*types.Tuple)
	kT, vT := tup.At(1).Type(), tup.At(2).Type()
	if mt, ok := rng.X.Type().Underlying().(*types.Map); ok {
		// a discarded key or value has no type in the tuple: take the map's
		kT, vT = mt.Key(), mt.Elem()
	}
	kz := zeroTerm(sortOf(kT))
	vz := zeroTerm(sortOf(vT))
	if in.IsString {
		rs := []rune(it.str.Str)
		if it.pos < len(rs) {
			// byte index
			bi := len(string(rs[:it.pos]))
			st.env[in] = mkTuple(TTrue, IntLit(int64(bi)), IntLit(int64(rs[it.pos])))
			it.pos++
		} else {
			st.env[in] = mkTuple(TFalse, kz, vz)
		}
		return true
	}
	loopHasSpec := false
	if c := v.contractFor(st.top().fn); c != nil && c.Loops != nil {
		if ord, isHeader := v.loopsOf(st.top().fn).headers[st.top().block.Index]; isHeader && c.Loops[ord] != nil {
			loopHasSpec = true
		}
	}
	if !loopHasSpec && v.topC != nil && len(st.frames) > 1 {
		if m := v.topC.InlinedLoops[funcKey(st.top().fn)]; m != nil {
			if ord, isHeader := v.loopsOf(st.top().fn).headers[st.top().block.Index]; isHeader && m[ord] != nil {
				loopHasSpec = true
			}
		}
	}
	if (!it.known || loopHasSpec) && !st.initMod && it.visited != nil {
		// a map of unknown contents: some key not handed out before, or none left - in an order nobody fixes.
		// (The loop needs invariants; they may speak of rangeseen(k) and rangekey().)
		mo := Select(st.getHeap(it.msort), it.mapRef)
		dom, val := Sel(mo, 0), Sel(mo, 1)
		ks := it.msort.Fields[0].Sort.Key
		k := Fresh("mapkey", ks)
		more := Fresh("mapmore", SBool)
		for _, c := range typeInv(k, kT, 0) {
			st.assume(Implies(more, c))
		}
		st.assume(Implies(more, And(Select(dom, k), Not(Select(it.visited, k)))))
		j := BVar("k$rng", ks)
		st.assume(Implies(Not(more), Forall([]*Term{j}, Implies(Select(dom, j), Select(it.visited, j)))))
		// as many keys have been handed out as the map holds exactly when none is left
		card := Sel(mo, 2)
		st.assume(Implies(more, Lt(it.count, card)))
		st.assume(Implies(Not(more), Eq(it.count, card)))
		it.count = Ite(more, Add(it.count, IntLit(1)), it.count)
		it.curKey = k
		it.visited = Ite(more, Store(it.visited, k, TTrue), it.visited)
		st.env[in] = mkTuple(more, k, Select(val, k))
		return true
	}
	if !it.known {
		unsup("range over a map with unknown contents in %s", st.top().fn)
	}
	if st.initMod {
		if it.pos < len(it.entries) {
			e := it.entries[it.pos]
			it.pos++
			st.env[in] = mkTuple(TTrue, e.k, e.v)
		} else {
			st.env[in] = mkTuple(TFalse, kz, vz)
		}
		return true
	}
	// Order-independent summarisation: run the body once per entry from the
	// same state; a body that reaches the header again must not have changed
	// the heap; the fall-through assumes every entry continued.
	fr := st.top()
	header := fr.block
	if it.pos != 0 {
		unsup("re-entered summarised map loop")
	}
	it.pos = 1
	var conts []*Term
	pcLen := len(st.pc)
	depth := len(st.frames)
	for _, e := range it.entries {
		var cont []*Term
		child := st.clone()
		cf := child.top()
		child.env[in] = mkTuple(TTrue, e.k, e.v)
		heapAt := map[string]*Term{}
		for k, h := range child.heap {
			heapAt[k] = h
		}
		nAlloc := len(child.allocd)
		cf.barrier = &mapBarrier{header: header}
		cf.barrier.onBack = func(s *State) {
			if len(s.frames) != depth {
				unsup("map loop barrier at wrong depth")
			}
			// purity of the iteration
			fs := map[*Term]bool{}
			for _, a := range s.allocd[nAlloc:] {
				fs[a] = true
			}
			for k, h := range s.heap {
				x := h
				for x.Op == "store" && fs[x.Args[1]] {
					x = x.Args[0]
				}
				b, ok := heapAt[k]
				if ok && x != b {
					unsup("map-range body in %s mutates the heap (%s): order-dependent", fr.fn, k)
				}
			}
			// header phis must be unchanged
			for _, hin := range header.Instrs {
				p, ok := hin.(*ssa.Phi)
				if !ok {
					break
				}
				if s.env[p] != st.env[p] {
					unsup("map-range body in %s carries state across iterations (%s): order-dependent", fr.fn, p.Comment)
				}
			}
			cont = append(cont, And(s.pc[pcLen:]...))
		}
		v.explore(child)
		conts = append(conts, Or(cont...))
	}
	for _, c := range conts {
		st.assume(c)
	}
	if !v.feasible(st, TTrue) {
		return false
	}
	st.env[in] = mkTuple(TFalse, kz, vz)
	return true
}

// ---- returns ----

func (v *Verifier) doReturn(st *State, rs []*Term) bool {
	fr := st.top()
	if len(st.frames) == 1 {
		v.returned = true
		v.atTopReturn(st, rs)
		return false
	}
	st.frames = st.frames[:len(st.frames)-1]
	if fr.call != nil {
		switch len(rs) {
		case 0:
		case 1:
			st.env[fr.call] = rs[0]
		default:
			st.env[fr.call] = mkTuple(rs...)
		}
	}
	return true
}

var onTopReturn func(v *Verifier, st *State, rs []*Term)

func (v *Verifier) atTopReturn(st *State, rs []*Term) {
	if onTopReturn != nil {
		onTopReturn(v, st, rs)
	}
}

// realMul / realDiv: exact on literals, otherwise the uninterpreted real_mul / real_div.
func realMul(x, y *Term) *Term {
	if x.Op == "real" && y.Op == "real" {
		a, _ := new(big.Rat).SetString(x.Str)
		b, _ := new(big.Rat).SetString(y.Str)
		return RealLit(new(big.Rat).Mul(a, b).String())
	}
	return App("real_mul", SReal, x, y)
}

func realDiv(x, y *Term) *Term {
	if x.Op == "real" && y.Op == "real" {
		a, _ := new(big.Rat).SetString(x.Str)
		b, _ := new(big.Rat).SetString(y.Str)
		if b.Sign() != 0 {
			return RealLit(new(big.Rat).Quo(a, b).String())
		}
	}
	return App("real_div", SReal, x, y)
}

func isMapType(T types.Type) bool {
	_, ok := T.Underlying().(*types.Map)
	return ok
}

// underFacts rewrites t using the literals the path establishes outright: an atom that is itself a hypothesis
// (or the consequent of an implication whose antecedent is one) is replaced by true inside t, a negated one by false.
// Equivalent under the hypotheses; it lets  ite(dom[k], a, b)  collapse where dom[k] is known.
func underFacts(pc []*Term, t *Term) *Term {
	known := knownFacts(pc)
	if len(known) == 0 {
		return t
	}
	return Subst(t, known)
}

// derivedFacts: the literals knownFacts took from consequents of implications (they must be restated when the
// implications themselves are rewritten under the known facts).
var derivedFacts []*Term

func knownFacts(pc []*Term) map[*Term]*Term {
	known := map[*Term]*Term{}
	derivedFacts = nil
	if os.Getenv("GOVC_NO_FACTS") != "" {
		return known
	}
	inRound := false
	var add func(x *Term)
	add = func(x *Term) {
		switch x.Op {
		case "and":
			// literals inside a conjunction are restated too: rewriting the conjunction would erase them
			was := inRound
			inRound = true
			for _, a := range x.Args {
				add(a)
			}
			inRound = was
		case "not":
			if a := x.Args[0]; a.Op != "and" && a.Op != "or" && a.Op != "=>" && a.Op != "forall" && a.Op != "exists" && !a.open {
				if _, dup := known[a]; !dup && inRound {
					derivedFacts = append(derivedFacts, x)
				}
				known[a] = TFalse
			}
		case "or", "=>", "forall", "exists", "ite", "true", "false":
		default:
			if x.Sort == SBool && !x.open {
				if _, dup := known[x]; !dup && inRound {
					derivedFacts = append(derivedFacts, x)
				}
				known[x] = TTrue
			}
		}
	}
	for _, h := range pc {
		add(h)
	}
	inRound = true
	for round := 0; round < 2; round++ {
		for _, h := range pc {
			if h.Op == "=>" {
				if a := Subst(h.Args[0], known); a.IsTrue() {
					add(h.Args[1])
				}
			}
		}
	}
	return known
}


// splitLastExists rewrites  exists j. (j < x+1 and R(j))  into  (exists j. (j < x and R(j))) or R(x)  throughout t:
// an equivalence, which lets "some element up to and including the new one" be matched against what a loop
// invariant says about the elements before it.
func splitLastExists(t *Term) *Term {
	memo := map[*Term]*Term{}
	var rec func(*Term) *Term
	rec = func(t *Term) *Term {
		if len(t.Args) == 0 {
			return t
		}
		if r, ok := memo[t]; ok {
			return r
		}
		args := make([]*Term, len(t.Args))
		ch := false
		for i, a := range t.Args {
			args[i] = rec(a)
			if args[i] != a {
				ch = true
			}
		}
		r := t
		if ch {
			r = rebuild(t, args)
		}
		if r.Op == "exists" && len(r.Bound) == 1 && r.Args[0].Op == "and" {
			j := r.Bound[0]
			for i, c := range r.Args[0].Args {
				if c.Op == "<" && c.Args[0] == j && !mentions(c.Args[1], j) {
					if x, ok := minusOne(c.Args[1]); ok {
						var rest []*Term
						for k, d := range r.Args[0].Args {
							if k != i {
								rest = append(rest, d)
							}
						}
						before := Exists([]*Term{j}, And(append([]*Term{Lt(j, x)}, rest...)...))
						at := Subst(And(rest...), map[*Term]*Term{j: x})
						r = Or(before, at)
						break
					}
				}
			}
		}
		memo[t] = r
		return r
	}
	return rec(t)
}
