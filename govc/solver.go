package main

import (
	"bufio"
	"bytes"
	"context"
	"fmt"
	"io"
	"math/big"
	"os"
	"os/exec"
	"path/filepath"
	"sort"
	"strings"
	"sync"
	"time"
)

func pow2(n uint) *big.Int        { return new(big.Int).Lsh(big.NewInt(1), n) }
func newBigU(u uint64) *big.Int   { return new(big.Int).SetUint64(u) }

// ---- incremental solver for path feasibility ----

type IncSolver struct {
	cmd      *exec.Cmd
	in       io.WriteCloser
	out      *bufio.Reader
	declared map[string]bool
	sorts    map[*Sort]bool
	queries  int
	cache    map[string]bool
}

func newIncSolver(prelude string) (*IncSolver, error) {
	cmd := exec.Command("z3-new", "-in", "-t:2000")
	in, _ := cmd.StdinPipe()
	out, _ := cmd.StdoutPipe()
	cmd.Stderr = os.Stderr
	if err := cmd.Start(); err != nil {
		return nil, err
	}
	s := &IncSolver{cmd: cmd, in: in, out: bufio.NewReader(out), declared: map[string]bool{}, sorts: map[*Sort]bool{}, cache: map[string]bool{}}
	io.WriteString(in, preludeBase)
	io.WriteString(in, prelude)
	return s, nil
}

func (s *IncSolver) Close() {
	if s == nil {
		return
	}
	s.in.Close()
	s.cmd.Process.Kill()
	s.cmd.Wait()
}

func (s *IncSolver) declare(ts []*Term) string {
	order, _ := collect(ts)
	var b strings.Builder
	for _, so := range usedSorts(order) {
		if s.sorts[so] {
			continue
		}
		s.sorts[so] = true
		fmt.Fprintf(&b, "(declare-datatypes ((%s 0)) (((%s", so.Name, so.Ctor)
		for _, f := range so.Fields {
			fmt.Fprintf(&b, " (%s %s)", f.Name, f.Sort.Name)
		}
		b.WriteString("))))\n")
	}
	for _, t := range order {
		if t.Op == "var" && !s.declared[t.Str] {
			s.declared[t.Str] = true
			fmt.Fprintf(&b, "(declare-fun %s () %s)\n", smtName(t.Str), t.Sort.Name)
		}
		if t.Op == "app" && !definedFuncs[t.Str] && !s.declared["app:"+t.Str] {
			s.declared["app:"+t.Str] = true
			fmt.Fprintf(&b, "(declare-fun %s (", smtName(t.Str))
			for i, a := range t.Args {
				if i > 0 {
					b.WriteByte(' ')
				}
				b.WriteString(a.Sort.Name)
			}
			fmt.Fprintf(&b, ") %s)\n", t.Sort.Name)
		}
	}
	return b.String()
}

// Feasible reports whether pc ∧ extra may be satisfiable (unknown counts as feasible).
func (s *IncSolver) Feasible(pc []*Term, extra *Term) bool {
	all := append(append([]*Term{}, pc...), extra)
	var kb strings.Builder
	for _, t := range all {
		fmt.Fprintf(&kb, "%d,", t.id)
	}
	if r, ok := s.cache[kb.String()]; ok {
		return r
	}
	s.queries++
	var b strings.Builder
	b.WriteString(s.declare(all))
	b.WriteString("(push)\n")
	order, uses := collect(all)
	names := map[*Term]string{}
	n := 0
	for _, t := range order {
		if len(t.Args) == 0 || t.open {
			continue
		}
		if uses[t] > 1 {
			n++
			nm := fmt.Sprintf("$f%d", n)
			fmt.Fprintf(&b, "(define-fun %s () %s %s)\n", nm, t.Sort.Name, printTermShallow(t, names))
			names[t] = nm
		}
	}
	for _, t := range all {
		fmt.Fprintf(&b, "(assert %s)\n", printTerm(t, names))
	}
	marker := fmt.Sprintf("done-%d", s.queries)
	b.WriteString("(check-sat)\n(pop)\n(echo \"" + marker + "\")\n")
	if f := os.Getenv("GOVC_INCLOG"); f != "" {
		fh, _ := os.OpenFile(f, os.O_APPEND|os.O_CREATE|os.O_WRONLY, 0o644)
		fh.WriteString(b.String())
		fh.Close()
	}
	go io.WriteString(s.in, b.String())
	line := "unknown"
	for {
		l, err := s.out.ReadString('\n')
		if err != nil {
			return true
		}
		l = strings.TrimSpace(l)
		if l == marker || l == "\""+marker+"\"" {
			break
		}
		if strings.HasPrefix(l, "(error") {
			fmt.Fprintln(os.Stderr, "incremental solver:", l)
			line = "unknown"
			continue
		}
		if l == "sat" || l == "unsat" || l == "unknown" {
			line = l
		}
	}
	r := line != "unsat"
	s.cache[kb.String()] = r
	return r
}

// ---- discharge ----

type ObResult struct {
	Status   string // proved, failed, trivial, cover-ok, cover-failed
	Answer   string // unsat / sat / unknown / timeout
	Backend  string
	Seconds  float64
	Agree    []string // back ends that answered the same (thorough)
	Model    string
	SMTFile  string
	SMTBytes int
	Outputs  map[string]string
}

type backend struct {
	name string
	argv func(file string, timeout int) []string
}

var backends = []backend{
	{"z3-5.1.0", func(f string, t int) []string { return []string{"z3-new", fmt.Sprintf("-T:%d", t), f} }},
	{"z3-4.8.12", func(f string, t int) []string { return []string{"z3", fmt.Sprintf("-T:%d", t), f} }},
	{"cvc5-1.0.3", func(f string, t int) []string {
		return []string{"cvc5", "--lang=smt2", fmt.Sprintf("--tlimit=%d", t*1000), "--produce-models", f}
	}},
}

func runBackend(ctx context.Context, b backend, file string, timeout int) (string, string) {
	argv := b.argv(file, timeout)
	c, cancel := context.WithTimeout(ctx, time.Duration(timeout+2)*time.Second)
	defer cancel()
	cmd := exec.CommandContext(c, argv[0], argv[1:]...)
	var out bytes.Buffer
	cmd.Stdout = &out
	cmd.Stderr = &out
	cmd.Run()
	text := out.String()
	first := strings.TrimSpace(strings.SplitN(text, "\n", 2)[0])
	switch first {
	case "sat", "unsat", "unknown":
	case "timeout":
	default:
		if c.Err() != nil || ctx.Err() != nil {
			first = "timeout"
		} else if strings.Contains(text, "unsat") && !strings.Contains(text, "error") {
			first = "unsat"
		} else {
			first = "error"
		}
	}
	return first, text
}

func obligationScript(ob *Obligation, prelude string) *Script {
	sc := &Script{Prelude: prelude}
	if ob.Cover {
		// satisfiable iff some case's pc (and goal) is
		var ds []*Term
		for _, c := range ob.Cases {
			ds = append(ds, And(append(append([]*Term{}, c.pc...), c.goal)...))
		}
		sc.Asserts = []*Term{Or(ds...)}
		return sc
	}
	var ds []*Term
	for _, c := range ob.Cases {
		ds = append(ds, And(append(append([]*Term{}, c.pc...), Not(c.goal))...))
	}
	sc.Asserts = []*Term{Or(ds...)}
	return sc
}

type Discharger struct {
	dir      string
	prelude  string
	timeout  int
	thorough bool
	sem      chan struct{}
}

// prepare renders the SMT text (sequential: term construction is not thread-safe).
func (d *Discharger) prepare(ob *Obligation) {
	if ob.Failure != "" || len(ob.Cases) == 0 {
		return
	}
	sc := obligationScript(ob, d.prelude)
	if !ob.Cover && sc.Asserts[0].IsFalse() {
		ob.trivial = true
		return
	}
	ob.smt = sc.Render("", true)
}

func (d *Discharger) discharge(ob *Obligation) {
	if ob.Failure != "" {
		ob.Result = &ObResult{Status: "failed", Answer: "undecided: " + ob.Failure}
		return
	}
	if len(ob.Cases) == 0 {
		if ob.Cover {
			ob.Result = &ObResult{Status: "cover-failed", Answer: "no path"}
		} else {
			ob.Result = &ObResult{Status: "trivial", Answer: "unsat", Backend: "simplifier"}
		}
		return
	}
	if ob.trivial {
		ob.Result = &ObResult{Status: "trivial", Answer: "unsat", Backend: "simplifier"}
		return
	}
	text := ob.smt
	file := filepath.Join(d.dir, sanitize(ob.Name)+".smt2")
	os.WriteFile(file, []byte(text), 0o644)
	cvcText := "(set-logic ALL)\n" + text
	cvcFile := filepath.Join(d.dir, sanitize(ob.Name)+".cvc5.smt2")
	os.WriteFile(cvcFile, []byte(cvcText), 0o644)

	want := "unsat"
	if ob.Cover {
		want = "sat"
	}
	res := &ObResult{SMTFile: file, SMTBytes: len(text), Outputs: map[string]string{}}
	start := time.Now()
	type ans struct {
		b     string
		a     string
		out   string
		after time.Duration
	}
	try := func(timeout int) []ans {
		ctx, cancel := context.WithCancel(context.Background())
		defer cancel()
		ch := make(chan ans, len(backends))
		var wg sync.WaitGroup
		for _, b := range backends {
			wg.Add(1)
			go func(b backend) {
				defer wg.Done()
				f := file
				if strings.HasPrefix(b.name, "cvc5") {
					f = cvcFile
				}
				d.sem <- struct{}{}
				a, out := runBackend(ctx, b, f, timeout)
				<-d.sem
				ch <- ans{b.name, a, out, time.Since(start)}
			}(b)
		}
		var got []ans
		definite := 0
		for range backends {
			x := <-ch
			got = append(got, x)
			if x.a == "sat" || x.a == "unsat" {
				definite++
				if !d.thorough || definite >= 2 {
					cancel()
					break
				}
			}
		}
		go func() { wg.Wait() }()
		return got
	}
	got := try(d.timeout)
	decided := func(gs []ans) (string, string, []string) {
		var agree []string
		a := ""
		first := ""
		for _, g := range gs {
			if g.a == "sat" || g.a == "unsat" {
				if a == "" {
					a = g.a
					first = g.b
				}
				if g.a == a {
					agree = append(agree, g.b)
				} else {
					return "conflict", first, nil
				}
			}
		}
		return a, first, agree
	}
	a, first, agree := decided(got)
	if a == "" {
		got = append(got, try(d.timeout*3)...)
		a, first, agree = decided(got)
	}
	for _, g := range got {
		res.Outputs[g.b] = truncate(g.out, 4000)
	}
	res.Seconds = time.Since(start).Seconds()
	res.Backend = first
	sort.Strings(agree)
	res.Agree = agree
	if a == "" {
		a = "unknown"
		for _, g := range got {
			if g.a == "timeout" {
				a = "timeout"
			}
		}
	}
	res.Answer = a
	switch {
	case a == want && !ob.Cover:
		res.Status = "proved"
	case a == want && ob.Cover:
		res.Status = "cover-ok"
	case ob.Cover:
		res.Status = "cover-failed"
	default:
		res.Status = "failed"
		if a == "sat" {
			for _, g := range got {
				if g.a == "sat" {
					res.Model = g.out
					break
				}
			}
		}
	}
	ob.Result = res
}

func truncate(s string, n int) string {
	if len(s) <= n {
		return s
	}
	return s[:n] + "…"
}

func (d *Discharger) dischargeAll(obs []*Obligation) {
	for _, ob := range obs {
		d.prepare(ob)
	}
	var wg sync.WaitGroup
	for _, ob := range obs {
		wg.Add(1)
		go func(ob *Obligation) {
			defer wg.Done()
			d.discharge(ob)
		}(ob)
	}
	wg.Wait()
}
