package main

import (
	"bufio"
	"bytes"
	"context"
	"fmt"
	"io"
	"math/big"
	"os"
	"os/exec"
	"path/filepath"
	"sort"
	"strconv"
	"strings"
	"sync"
	"time"
)

func pow2(n uint) *big.Int        { return new(big.Int).Lsh(big.NewInt(1), n) }
func newBigU(u uint64) *big.Int   { return new(big.Int).SetUint64(u) }

// ---- incremental solver for path feasibility ----

type IncSolver struct {
	cmd      *exec.Cmd
	in       io.WriteCloser
	out      *bufio.Reader
	declared map[string]bool
	sorts    map[*Sort]bool
	queries  int
	cache    map[string]bool
	loaded   map[string]bool
}

func newIncSolver(prelude string) (*IncSolver, error) {
	cmd := exec.Command("z3-new", "-in", "-t:2000")
	in, _ := cmd.StdinPipe()
	out, _ := cmd.StdoutPipe()
	cmd.Stderr = os.Stderr
	if err := cmd.Start(); err != nil {
		return nil, err
	}
	s := &IncSolver{cmd: cmd, in: in, out: bufio.NewReader(out), declared: map[string]bool{}, sorts: map[*Sort]bool{}, cache: map[string]bool{}}
	io.WriteString(in, s.declare([]*Term{zeroTerm(SSlice), zeroTerm(SIface)}))
	io.WriteString(in, preludeBase)
	s.loaded = map[string]bool{}
	return s, nil
}

func (s *IncSolver) Close() {
	if s == nil {
		return
	}
	s.in.Close()
	s.cmd.Process.Kill()
	s.cmd.Wait()
}

func (s *IncSolver) declare(ts []*Term) string {
	order, _ := collect(ts)
	var b strings.Builder
	forms := neededForms(order)
	defer func() {
		// definitions go after the sorts they mention
	}()
	for _, so := range usedSortsWith(order, forms) {
		if s.sorts[so] {
			continue
		}
		s.sorts[so] = true
		fmt.Fprintf(&b, "(declare-datatypes ((%s 0)) (((%s", so.Name, so.Ctor)
		for _, f := range so.Fields {
			fmt.Fprintf(&b, " (%s %s)", f.Name, f.Sort.Name)
		}
		b.WriteString("))))\n")
	}
	for _, f := range forms {
		if s.loaded != nil && !s.loaded[f.name] {
			s.loaded[f.name] = true
			b.WriteString(formText(f))
			b.WriteString("\n")
		}
	}
	for _, t := range order {
		if (t.Op == "var" || t.Op == "hext") && !s.declared[t.Str] {
			s.declared[t.Str] = true
			fmt.Fprintf(&b, "(declare-fun %s () %s)\n", smtName(t.Str), t.Sort.Name)
		}
		if t.Op == "app" && !definedFuncs[t.Str] && !s.declared["app:"+t.Str] {
			s.declared["app:"+t.Str] = true
			fmt.Fprintf(&b, "(declare-fun %s (", smtName(t.Str))
			for i, a := range t.Args {
				if i > 0 {
					b.WriteByte(' ')
				}
				b.WriteString(a.Sort.Name)
			}
			fmt.Fprintf(&b, ") %s)\n", t.Sort.Name)
		}
	}
	return b.String()
}

// Feasible reports whether pc ∧ extra may be satisfiable (unknown counts as feasible).
func (s *IncSolver) Feasible(pc []*Term, extra *Term) bool {
	// quantified facts are left out: the check only prunes paths, and fewer hypotheses
	// can only make a path look feasible
	var all []*Term
	for _, t := range pc {
		if !hasQuant(t) {
			all = append(all, t)
		}
	}
	all = append(all, extra)
	all = append(imageFacts(all), all...)
	var kb strings.Builder
	for _, t := range all {
		fmt.Fprintf(&kb, "%d,", t.id)
	}
	if r, ok := s.cache[kb.String()]; ok {
		return r
	}
	s.queries++
	var b strings.Builder
	b.WriteString(s.declare(all))
	b.WriteString("(push)\n")
	order, uses := collect(all)
	names := map[*Term]string{}
	n := 0
	for _, t := range order {
		if len(t.Args) == 0 || t.open {
			continue
		}
		if uses[t] > 1 {
			n++
			nm := fmt.Sprintf("$f%d", n)
			fmt.Fprintf(&b, "(define-fun %s () %s %s)\n", nm, t.Sort.Name, printTermShallow(t, names))
			names[t] = nm
		}
	}
	b.WriteString(hextAxioms(order, names))
	for _, t := range all {
		fmt.Fprintf(&b, "(assert %s)\n", printTerm(t, names))
	}
	marker := fmt.Sprintf("done-%d", s.queries)
	b.WriteString("(check-sat)\n(pop)\n(echo \"" + marker + "\")\n")
	if f := os.Getenv("GOVC_INCLOG"); f != "" {
		fh, _ := os.OpenFile(f, os.O_APPEND|os.O_CREATE|os.O_WRONLY, 0o644)
		fh.WriteString(b.String())
		fh.Close()
	}
	go io.WriteString(s.in, b.String())
	line := "unknown"
	for {
		l, err := s.out.ReadString('\n')
		if err != nil {
			return true
		}
		l = strings.TrimSpace(l)
		if l == marker || l == "\""+marker+"\"" {
			break
		}
		if strings.HasPrefix(l, "(error") {
			fmt.Fprintln(os.Stderr, "incremental solver:", l)
			line = "unknown"
			continue
		}
		if l == "sat" || l == "unsat" || l == "unknown" {
			line = l
		}
	}
	r := line != "unsat"
	s.cache[kb.String()] = r
	return r
}

// ---- discharge ----

type ObResult struct {
	Status   string // proved, failed, trivial, cover-ok, cover-failed
	Answer   string // unsat / sat / unknown / timeout
	Backend  string
	Seconds  float64
	Agree    []string // back ends that answered the same (thorough)
	Model    string
	SMTFile  string
	SatFiles []string // every refuted path's query (replay tries them in turn)
	SMTBytes int
	Outputs  map[string]string
}

type backend struct {
	name string
	argv func(file string, timeout int) []string
}

var backends = []backend{
	{"z3-5.1.0", func(f string, t int) []string { return []string{"z3-new", fmt.Sprintf("-T:%d", t), f} }},
	{"z3-4.8.12", func(f string, t int) []string { return []string{"z3", fmt.Sprintf("-T:%d", t), f} }},
	{"cvc5-1.0.3", func(f string, t int) []string {
		return []string{"cvc5", "--lang=smt2", fmt.Sprintf("--tlimit=%d", t*1000), "--produce-models", f}
	}},
}

func runBackend(ctx context.Context, b backend, file string, timeout int) (string, string) {
	argv := b.argv(file, timeout)
	c, cancel := context.WithTimeout(ctx, time.Duration(timeout+2)*time.Second)
	defer cancel()
	cmd := exec.CommandContext(c, argv[0], argv[1:]...)
	var out bytes.Buffer
	cmd.Stdout = &out
	cmd.Stderr = &out
	cmd.Run()
	text := out.String()
	first := strings.TrimSpace(strings.SplitN(text, "\n", 2)[0])
	switch first {
	case "sat", "unsat", "unknown":
	case "timeout":
	default:
		if c.Err() != nil || ctx.Err() != nil {
			first = "timeout"
		} else if strings.Contains(text, "unsat") && !strings.Contains(text, "error") {
			first = "unsat"
		} else {
			first = "error"
		}
	}
	return first, text
}



// obligationChunks splits the cases of a (non-cover) obligation into several
// smaller queries; all must be unsat.
func obligationChunks(ob *Obligation, prelude string) []*Script {
	if len(ob.Cases) <= 1 && !ob.Cover {
		return []*Script{obligationScript(ob, prelude)}
	}
	if ob.Cover {
		// satisfiable as soon as one path is: try the first few paths separately
		var out []*Script
		step := 1
		if len(ob.Cases) > 8 {
			step = len(ob.Cases) / 8
		}
		for i := 0; i < len(ob.Cases); i += step {
			// a path is checked on its quantifier-free facts when it has quantified ones
			// (models of quantified formulas are hard to find); otherwise in full
			var qf []*Term
			for _, t := range ob.Cases[i].pc {
				if !hasQuant(t) {
					qf = append(qf, t)
				}
			}
			sub := &Obligation{Name: ob.Name, Cover: true, Cases: []obCase{{pc: qf, goal: ob.Cases[i].goal, derived: true}}}
			out = append(out, obligationScript(sub, prelude))
		}
		return out
	}
	// one path per query while that stays below ~48 queries, larger groups beyond
	chunkSize := (len(ob.Cases) + 2047) / 2048
	if s := os.Getenv("GOVC_CHUNK"); s != "" {
		if n, _ := strconv.Atoi(s); n > 0 {
			chunkSize = n
		}
	}
	var out []*Script
	for i := 0; i < len(ob.Cases); i += chunkSize {
		j := i + chunkSize
		if j > len(ob.Cases) {
			j = len(ob.Cases)
		}
		sub := &Obligation{Name: ob.Name, Cases: ob.Cases[i:j]}
		out = append(out, obligationScript(sub, prelude))
	}
	return out
}

func lightOnly(pc []*Term) []*Term {
	var q []*Term
	for _, t := range pc {
		if hasForall(t) {
			continue
		}
		q = append(q, t)
	}
	return q
}

var forallCache = map[*Term]bool{}

func hasForall(t *Term) bool {
	if v, ok := forallCache[t]; ok {
		return v
	}
	r := t.Op == "forall" || t.Op == "exists"
	if !r {
		for _, a := range t.Args {
			if hasForall(a) {
				r = true
				break
			}
		}
	}
	forallCache[t] = r
	return r
}

func hasQuant(t *Term) bool {
	if t.Op == "forall" || t.Op == "exists" || t.Op == "hext" {
		return true
	}
	for _, a := range t.Args {
		if hasQuant(a) {
			return true
		}
	}
	return false
}

func obligationScript(ob *Obligation, prelude string) *Script {
	sc := &Script{Prelude: prelude}
	if ob.Cover {
		// satisfiable iff some case's pc (and goal) is
		var ds []*Term
		for _, c := range ob.Cases {
			ds = append(ds, And(append(append([]*Term{}, c.pc...), c.goal)...))
		}
		sc.Asserts = []*Term{Or(ds...)}
		return sc
	}
	var ds []*Term
	for _, c := range ob.Cases {
		pc := c.pc
		if !c.derived {
			pc = c.full()
		}
		ds = append(ds, And(append(append([]*Term{}, pc...), Not(c.goal))...))
	}
	sc.Asserts = []*Term{Or(ds...)}
	return sc
}

type Discharger struct {
	dir      string
	prelude  string
	timeout  int
	thorough bool
	sem      chan struct{}
}

// prepare renders the SMT text (sequential: term construction is not thread-safe).
func (d *Discharger) prepare(ob *Obligation) {
	if ob.Failure != "" || len(ob.Cases) == 0 {
		return
	}
	scs := obligationChunks(ob, d.prelude)
	ob.trivial = true
	for _, sc := range scs {
		if !ob.Cover && sc.Asserts[0].IsFalse() {
			continue
		}
		ob.trivial = false
		ob.smts = append(ob.smts, sc.Render("", true))
	}
	if ob.Cover || len(ob.smts) == 0 {
		return
	}
	// cheaper variants of every chunk, tried first. Each only drops hypotheses, so a
	// proof of a variant is a proof of the obligation; failing one decides nothing.
	ob.variants = make([][]string, len(ob.smts))
	k := 0
	cases := chunkCases(ob)
	for i, sc := range scs {
		if !ob.Cover && sc.Asserts[0].IsFalse() {
			continue
		}
		if !learnMode {
			sub := &Obligation{Name: ob.Name}
			okHint := true
			for _, c := range cases[i] {
				pc, ok := hintedPC(ob.Name, c.full())
				if !ok {
					okHint = false
					break
				}
				sub.Cases = append(sub.Cases, obCase{pc: pc, goal: c.goal, derived: true})
			}
			if okHint {
				ob.variants[k] = append(ob.variants[k], obligationScript(sub, d.prelude).Render("", false))
			}
		}
		// cheaper hypothesis sets: the facts gathered since the last loop cut (this iteration /
		// the code after the loop) or all of them, each with its derived facts (instances,
		// unfoldings), quantified facts dropped, then filtered by relevance to the goal
		type vmode struct {
			sinceCut bool
			depth    int // > 0: relevance depth; -1: only hypotheses whose spec functions all occur in the goal
		}
		modes := []vmode{{true, -1}, {false, -1}, {true, 3}, {true, 0}, {false, 4}, {false, 0}}
		// goals that compare strings get one more variant first, in which every composite string term is replaced
		// by a variable (the same term by the same variable): what holds of arbitrary strings holds of these
		stringy := false
		for _, c := range cases[i] {
			if mentionsOp(c.goal, "str.<") || mentionsOp(c.goal, "str.<=") {
				stringy = true
			}
		}
		if stringy {
			sub := &Obligation{Name: ob.Name}
			for _, c := range cases[i] {
				pc := lightOnly(withDerived(c.pc, c.cands, c.goal))
				abs := map[*Term]*Term{}
				pc2 := make([]*Term, len(pc))
				for k, t := range pc {
					pc2[k] = abstractStrings(t, abs)
				}
				sub.Cases = append(sub.Cases, obCase{pc: pc2, goal: abstractStrings(c.goal, abs), derived: true})
			}
			ob.variants[k] = append(ob.variants[k], obligationScript(sub, d.prelude).Render("", false))
		}
		if e := os.Getenv("GOVC_DEPTHS"); e != "" {
			modes = nil
			for _, x := range strings.Split(e, ",") {
				n, _ := strconv.Atoi(x)
				modes = append(modes, vmode{false, n})
			}
		}
		seenText := map[string]bool{}
		for _, mode := range modes {
			sub := &Obligation{Name: ob.Name}
			applicable := true
			for _, c := range cases[i] {
				raw := c.pc
				if mode.sinceCut {
					if c.cut <= 0 || c.cut >= len(c.pc) {
						applicable = false
						break
					}
					raw = c.pc[c.cut:]
				}
				pc := lightOnly(withDerived(raw, c.cands, c.goal))
				if mode.depth > 0 {
					pc = relevantPC(pc, c.goal, mode.depth)
				}
				if mode.depth == -1 {
					pc = sameFuncsPC(pc, c.goal)
				}
				sub.Cases = append(sub.Cases, obCase{pc: pc, goal: c.goal, derived: true})
			}
			if !applicable {
				continue
			}
			text := obligationScript(sub, d.prelude).Render("", false)
			if !seenText[text] {
				seenText[text] = true
				ob.variants[k] = append(ob.variants[k], text)
			}
		}
		k++
	}
}

// chunkCases mirrors obligationChunks' grouping.
func chunkCases(ob *Obligation) [][]obCase {
	n := len(ob.Cases)
	if n <= 1 {
		return [][]obCase{ob.Cases}
	}
	chunkSize := (n + 2047) / 2048
	if s := os.Getenv("GOVC_CHUNK"); s != "" {
		if x, _ := strconv.Atoi(s); x > 0 {
			chunkSize = x
		}
	}
	var out [][]obCase
	for i := 0; i < n; i += chunkSize {
		j := i + chunkSize
		if j > n {
			j = n
		}
		out = append(out, ob.Cases[i:j])
	}
	return out
}

// relevantPC keeps the hypotheses connected to the goal through shared, rare
// subterms (terms are hash-consed, so sharing is identity), to the given depth.
func relevantPC(pc []*Term, goal *Term, depth int) []*Term {
	sets := make([]map[*Term]bool, len(pc))
	occ := map[*Term]int{}
	for i, t := range pc {
		sets[i] = sigTerms(t)
		for x := range sets[i] {
			occ[x]++
		}
	}
	limit := len(pc)/25 + 4 // a subterm occurring in more hypotheses than this is a hub
	rel := map[*Term]bool{}
	for x := range sigTerms(goal) {
		rel[x] = true
	}
	in := make([]bool, len(pc))
	for d := 0; d < depth; d++ {
		added := false
		var newly []int
		for i := range pc {
			if in[i] {
				continue
			}
			for x := range sets[i] {
				if rel[x] && occ[x] <= limit {
					in[i] = true
					added = true
					newly = append(newly, i)
					break
				}
			}
		}
		for _, i := range newly {
			for x := range sets[i] {
				rel[x] = true
			}
		}
		if !added {
			break
		}
	}
	var out []*Term
	for i, t := range pc {
		if in[i] {
			out = append(out, t)
		}
	}
	if os.Getenv("GOVC_DEBUG") != "" {
		hubs := 0
		for _, n := range occ {
			if n > limit {
				hubs++
			}
		}
		fmt.Fprintf(os.Stderr, "relevantPC depth=%d: %d of %d hypotheses kept; %d goal terms, limit %d, %d hub terms\n", depth, len(out), len(pc), len(sigTerms(goal)), limit, hubs)
	}
	return out
}

var sigCache = map[*Term]map[*Term]bool{}

// sigTerms: the non-ground variables, selections and applications occurring in t.
func sigTerms(t *Term) map[*Term]bool {
	if m, ok := sigCache[t]; ok {
		return m
	}
	m := map[*Term]bool{}
	seen := map[*Term]bool{}
	var rec func(x *Term)
	rec = func(x *Term) {
		if seen[x] || x.ground {
			return
		}
		seen[x] = true
		switch x.Op {
		case "var", "hext":
			if !infraSymbol(x.Str) {
				m[x] = true
			}
		case "select", "sel", "app":
			m[x] = true
		}
		for _, a := range x.Args {
			rec(a)
		}
	}
	rec(t)
	sigCache[t] = m
	return m
}

// sameFuncsPC keeps the hypotheses all of whose specification-function symbols occur in the goal.
func sameFuncsPC(pc []*Term, goal *Term) []*Term {
	gf := appSyms(goal)
	var out []*Term
	for _, t := range pc {
		ok := true
		for f := range appSyms(t) {
			if !gf[f] {
				ok = false
				break
			}
		}
		if ok {
			out = append(out, t)
		}
	}
	return out
}

var appSymCache = map[*Term]map[string]bool{}

func appSyms(t *Term) map[string]bool {
	if m, ok := appSymCache[t]; ok {
		return m
	}
	m := map[string]bool{}
	seen := map[*Term]bool{}
	var rec func(x *Term)
	rec = func(x *Term) {
		if seen[x] {
			return
		}
		seen[x] = true
		if x.Op == "app" && x.Str != "go_div" && x.Str != "go_rem" {
			m[x.Str] = true
		}
		for _, a := range x.Args {
			rec(a)
		}
	}
	rec(t)
	appSymCache[t] = m
	return m
}

// infraSymbol: allocation water marks and whole heaps occur almost everywhere and never select a hypothesis.
func infraSymbol(s string) bool {
	return strings.HasPrefix(s, "lw!") || (strings.HasPrefix(s, "H$") && strings.HasSuffix(s, "@0"))
}

var hintMu sync.Mutex

// termMu serialises term construction done from discharge goroutines (learning only).
var termMu sync.Mutex

var symCache = map[*Term]map[string]bool{}

func termSymbols(t *Term) map[string]bool {
	if m, ok := symCache[t]; ok {
		return m
	}
	m := map[string]bool{}
	seen := map[*Term]bool{}
	var rec func(x *Term)
	rec = func(x *Term) {
		if seen[x] {
			return
		}
		seen[x] = true
		switch x.Op {
		case "var", "hext":
			m[x.Str] = true
		case "app":
			if _, isSpec := specFuncs[x.Str]; !isSpec || preludeIsDeclared(x.Str) {
				m["app:"+x.Str] = true
			}
		}
		for _, a := range x.Args {
			rec(a)
		}
	}
	rec(t)
	symCache[t] = m
	return m
}

// preludeIsDeclared: uninterpreted (declare-fun) specification symbols count as symbols;
// defined ones are just abbreviations.
func preludeIsDeclared(name string) bool {
	f, ok := preludeByName[name]
	return ok && strings.HasPrefix(f.text, "(declare-fun")
}

func obligationChunksLight(ob *Obligation, prelude string) []*Script {
	lightCase := func(c obCase) (obCase, bool) {
		var pc []*Term
		dropped := false
		for _, t := range c.pc {
			if t.Op == "forall" || (t.Op == "=>" && t.Args[1].Op == "forall") {
				dropped = true
				continue
			}
			pc = append(pc, t)
		}
		return obCase{pc: pc, goal: c.goal}, dropped
	}
	var out []*Script
	n := len(ob.Cases)
	chunkSize := (n + 2047) / 2048
	if n <= 1 {
		chunkSize = 1
	}
	if s := os.Getenv("GOVC_CHUNK"); s != "" {
		if x, _ := strconv.Atoi(s); x > 0 {
			chunkSize = x
		}
	}
	for i := 0; i < n; i += chunkSize {
		j := i + chunkSize
		if j > n {
			j = n
		}
		any := false
		sub := &Obligation{Name: ob.Name}
		for _, c := range ob.Cases[i:j] {
			lc, d := lightCase(c)
			any = any || d
			sub.Cases = append(sub.Cases, lc)
		}
		if !any {
			out = append(out, nil)
			continue
		}
		out = append(out, obligationScript(sub, prelude))
	}
	return out
}

func (d *Discharger) discharge(ob *Obligation) {
	if ob.Kind == "exists" && ob.Result != nil {
		ob.Result.Status = "failed"
		return
	}
	if ob.Failure != "" {
		ob.Result = &ObResult{Status: "failed", Answer: "undecided: " + ob.Failure}
		return
	}
	if len(ob.Cases) == 0 {
		if ob.Cover {
			ob.Result = &ObResult{Status: "cover-failed", Answer: "no path"}
		} else {
			ob.Result = &ObResult{Status: "trivial", Answer: "unsat", Backend: "simplifier"}
		}
		return
	}
	if ob.trivial {
		ob.Result = &ObResult{Status: "trivial", Answer: "unsat", Backend: "simplifier"}
		return
	}
	want := "unsat"
	if ob.Cover {
		want = "sat"
	}
	res := &ObResult{Outputs: map[string]string{}}
	start := time.Now()
	var mu sync.Mutex
	var wg sync.WaitGroup
	crs := make([]chunkResT, len(ob.smts))
	gate := make(chan struct{}, 12) // paths of one obligation in flight (so that a failure can cut the rest short)
	for ci, text := range ob.smts {
		wg.Add(1)
		gate <- struct{}{}
		go func(ci int, text string) {
			defer wg.Done()
			defer func() { <-gate }()
			cr := d.solveOne(ob, ci, text)
			mu.Lock()
			crs[ci] = cr
			if cr.answer != want && !ob.Cover {
				// the obligation has failed: the remaining paths are tried briefly (a refutation of one of
				// them is still wanted for the report), not with the escalating timeouts
				ob.failedAlready.Store(true)
			}
			mu.Unlock()
		}(ci, text)
	}
	wg.Wait()
	if learnMode && !ob.Cover {
		// record unsat cores of the chunks that needed more than the cheap variants
		cases := chunkCases(ob)
		var lw sync.WaitGroup
		for ci := range crs {
			if ci >= len(cases) || len(cases[ci]) != 1 || (crs[ci].answer == "unsat" && crs[ci].secs < 1.5) {
				continue
			}
			lw.Add(1)
			go func(ci int) {
				defer lw.Done()
				c := cases[ci][0]
				termMu.Lock()
				fullPC := c.full()
				lightPC := lightOnly(fullPC)
				termMu.Unlock()
				_ = lightPC
				if d.learnCore(ob, obCase{pc: lightPC, goal: c.goal, derived: true}, 240) || d.learnCore(ob, obCase{pc: fullPC, goal: c.goal, derived: true}, 900) {
					crs[ci].answer = "unsat"
					if crs[ci].backend == "" {
						crs[ci].backend = backends[0].name
					}
				}
			}(ci)
		}
		lw.Wait()
	}
	res.Seconds = time.Since(start).Seconds()
	res.Answer = want
	if ob.Cover {
		// any satisfiable path suffices
		for _, cr := range crs {
			if cr.answer == "sat" {
				for i := range crs {
					crs[i] = cr
				}
				break
			}
		}
	}
	for _, cr := range crs {
		if cr.answer == "sat" && !ob.Cover {
			res.SatFiles = append(res.SatFiles, cr.file)
		}
	}
	// a refuted path (with a model) is reported in preference to one that is merely undecided
	firstSat := -1
	for ci, cr := range crs {
		if cr.answer != want && cr.answer == "sat" && !ob.Cover {
			firstSat = ci
			break
		}
	}
	for ci, cr := range crs {
		res.SMTBytes += len(ob.smts[ci])
		if firstSat >= 0 && ci != firstSat && cr.answer != want {
			continue
		}
		if res.Backend == "" {
			res.Backend = cr.backend
			res.Agree = cr.agree
		}
		if cr.answer != want {
			// first failing chunk decides
			res.Answer = cr.answer
			res.Backend = cr.backend
			res.Model = cr.model
			res.SMTFile = cr.file
			for k, o := range cr.outs {
				res.Outputs[k] = o
			}
			break
		}
		if res.SMTFile == "" {
			res.SMTFile = cr.file
		}
	}
	switch {
	case res.Answer == want && !ob.Cover:
		res.Status = "proved"
	case res.Answer == want && ob.Cover:
		res.Status = "cover-ok"
	case ob.Cover:
		res.Status = "cover-failed"
	default:
		res.Status = "failed"
	}
	ob.Result = res
}

type chunkResT = struct {
	answer, backend, model, file string
	agree                         []string
	outs                          map[string]string
	light                         bool
	quick                         bool // decided by the first cheap variant
	secs                          float64
}

func (d *Discharger) solveOne(ob *Obligation, ci int, text string) (cr chunkResT) {
	t0 := time.Now()
	defer func() { cr.secs = time.Since(t0).Seconds() }()
	cr.outs = map[string]string{}
	base := sanitize(ob.Name)
	if len(ob.smts) > 1 {
		base += fmt.Sprintf("~%d", ci)
	}
	file := filepath.Join(d.dir, base+".smt2")
	os.WriteFile(file, []byte(text), 0o644)
	cvcFile := filepath.Join(d.dir, base+".cvc5.smt2")
	os.WriteFile(cvcFile, []byte("(set-logic ALL)\n"+text), 0o644)
	cr.file = file
	start := time.Now()
	type ans struct {
		b     string
		a     string
		out   string
		after time.Duration
	}
	try := func(timeout int) []ans {
		ctx, cancel := context.WithCancel(context.Background())
		defer cancel()
		ch := make(chan ans, len(backends))
		for _, b := range backends {
			go func(b backend) {
				f := file
				if strings.HasPrefix(b.name, "cvc5") {
					f = cvcFile
				}
				d.sem <- struct{}{}
				a, out := runBackend(ctx, b, f, timeout)
				<-d.sem
				ch <- ans{b.name, a, out, time.Since(start)}
			}(b)
		}
		var got []ans
		definite := 0
		for range backends {
			x := <-ch
			got = append(got, x)
			if x.a == "sat" || x.a == "unsat" {
				definite++
				if !d.thorough || definite >= 2 {
					cancel()
					break
				}
			}
		}
		return got
	}
	decided := func(gs []ans) (string, string, []string) {
		var agree []string
		a := ""
		first := ""
		for _, g := range gs {
			if g.a == "sat" || g.a == "unsat" {
				if a == "" {
					a = g.a
					first = g.b
				}
				if g.a == a {
					agree = append(agree, g.b)
				} else {
					return "conflict", first, nil
				}
			}
		}
		return a, first, agree
	}
	if ob.failedAlready.Load() && !ob.Cover && !d.thorough {
		d.sem <- struct{}{}
		a1, out1 := runBackend(context.Background(), backends[0], file, 3)
		<-d.sem
		cr.answer = a1
		if a1 != "sat" && a1 != "unsat" {
			cr.answer = "timeout"
		}
		cr.backend = backends[0].name
		cr.outs[backends[0].name] = truncate(out1, 4000)
		if a1 == "sat" {
			cr.model = out1
		}
		return cr
	}
	// stage 0: cheaper variants (fewer hypotheses), briefly each
	if ci < len(ob.variants) && !d.thorough && len(ob.variants[ci]) > 0 {
		// quick tier: all variants and the full query at once on the usually fastest back end; the first proof wins
		type vres struct {
			vi int
			a  string
		}
		ctx, cancel := context.WithCancel(context.Background())
		n := len(ob.variants[ci]) + 1
		ch := make(chan vres, n)
		for vi, vt := range ob.variants[ci] {
			lf := filepath.Join(d.dir, fmt.Sprintf("%s.v%d.smt2", base, vi))
			os.WriteFile(lf, []byte(vt), 0o644)
			go func(vi int, lf string) {
				d.sem <- struct{}{}
				a0, _ := runBackend(ctx, backends[0], lf, 6)
				<-d.sem
				ch <- vres{vi, a0}
			}(vi, lf)
		}
		go func() {
			d.sem <- struct{}{}
			a0, _ := runBackend(ctx, backends[0], file, 6)
			<-d.sem
			ch <- vres{-1, a0}
		}()
		won := false
		fullSat := false
		for k := 0; k < n; k++ {
			r := <-ch
			if r.a == "unsat" && !won {
				won = true
				cr.answer = "unsat"
				cr.backend = backends[0].name
				cr.agree = []string{backends[0].name}
				cr.light = r.vi >= 0
				cr.quick = r.vi == 0
				cancel()
			}
			if r.vi == -1 && r.a == "sat" {
				fullSat = true
			}
		}
		cancel()
		if won {
			return cr
		}
		_ = fullSat
	} else if ci < len(ob.variants) {
		for vi, vt := range ob.variants[ci] {
			lf := filepath.Join(d.dir, fmt.Sprintf("%s.v%d.smt2", base, vi))
			os.WriteFile(lf, []byte(vt), 0o644)
			d.sem <- struct{}{}
			a0, _ := runBackend(context.Background(), backends[0], lf, 6)
			<-d.sem
			if a0 != "unsat" {
				continue
			}
			cr.answer = "unsat"
			cr.backend = backends[0].name
			cr.agree = []string{backends[0].name}
			cr.light = true
			cr.quick = vi == 0
			lfc := filepath.Join(d.dir, fmt.Sprintf("%s.v%d.cvc5.smt2", base, vi))
			os.WriteFile(lfc, []byte("(set-logic ALL)\n"+vt), 0o644)
			d.sem <- struct{}{}
			a1, _ := runBackend(context.Background(), backends[2], lfc, 20)
			<-d.sem
			if a1 == "unsat" {
				cr.agree = append(cr.agree, backends[2].name)
				return cr
			}
			d.sem <- struct{}{}
			a2, _ := runBackend(context.Background(), backends[1], lf, 20)
			<-d.sem
			if a2 == "unsat" {
				cr.agree = append(cr.agree, backends[1].name)
				return cr
			}
			break
		}
	}
	// stage 1: the usually fastest back end alone, briefly
	var got []ans
	{
		d.sem <- struct{}{}
		a1, out1 := runBackend(context.Background(), backends[0], file, 3)
		<-d.sem
		got = append(got, ans{backends[0].name, a1, out1, time.Since(start)})
	}
	a, first, agree := decided(got)
	giveUp := func() bool { return ob.failedAlready.Load() && !ob.Cover && !d.thorough }
	if (a == "" && !giveUp()) || (d.thorough && len(agree) < 2 && !ob.Cover) {
		to := d.timeout
		if ob.Cover {
			to = 5
		}
		got = append(got, try(to)...)
		a, first, agree = decided(got)
	}
	if a == "" && !ob.Cover && !giveUp() {
		got = append(got, try(d.timeout*3)...)
		a, first, agree = decided(got)
	}
	for _, g := range got {
		cr.outs[g.b] = truncate(g.out, 4000)
	}
	sort.Strings(agree)
	cr.agree = agree
	cr.backend = first
	if a == "" {
		a = "unknown"
		for _, g := range got {
			if g.a == "timeout" {
				a = "timeout"
			}
		}
	}
	cr.answer = a
	if a == "sat" {
		for _, g := range got {
			if g.a == "sat" {
				cr.model = g.out
				break
			}
		}
	}
	return cr
}

func truncate(s string, n int) string {
	if len(s) <= n {
		return s
	}
	return s[:n] + "…"
}

func (d *Discharger) dischargeAll(obs []*Obligation) {
	for _, ob := range obs {
		d.prepare(ob)
	}
	var wg sync.WaitGroup
	for _, ob := range obs {
		wg.Add(1)
		go func(ob *Obligation) {
			defer wg.Done()
			d.discharge(ob)
		}(ob)
	}
	wg.Wait()
}

func mentionsOp(t *Term, op string) bool {
	if t.Op == op {
		return true
	}
	for _, a := range t.Args {
		if mentionsOp(a, op) {
			return true
		}
	}
	return false
}

// abstractStrings replaces the outermost composite String-sorted subterms of t (concatenations, conditionals,
// applications - not literals, not variables) by fresh variables, one per distinct term.
func abstractStrings(t *Term, abs map[*Term]*Term) *Term {
	if t.Sort == SString && !t.open {
		if t.Op == "str" || t.Op == "var" {
			return t
		}
		if v, ok := abs[t]; ok {
			return v
		}
		v := Fresh("strabs", SString)
		abs[t] = v
		return v
	}
	if len(t.Args) == 0 || t.Op == "forall" || t.Op == "exists" {
		return t
	}
	args := make([]*Term, len(t.Args))
	ch := false
	for i, a := range t.Args {
		args[i] = abstractStrings(a, abs)
		if args[i] != a {
			ch = true
		}
	}
	if !ch {
		return t
	}
	return rebuild(t, args)
}
