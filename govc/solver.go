package main

import (
	"bufio"
	"bytes"
	"context"
	"fmt"
	"io"
	"math/big"
	"os"
	"os/exec"
	"path/filepath"
	"sort"
	"strconv"
	"strings"
	"sync"
	"time"
)

func pow2(n uint) *big.Int        { return new(big.Int).Lsh(big.NewInt(1), n) }
func newBigU(u uint64) *big.Int   { return new(big.Int).SetUint64(u) }

// ---- incremental solver for path feasibility ----

type IncSolver struct {
	cmd      *exec.Cmd
	in       io.WriteCloser
	out      *bufio.Reader
	declared map[string]bool
	sorts    map[*Sort]bool
	queries  int
	cache    map[string]bool
}

func newIncSolver(prelude string) (*IncSolver, error) {
	cmd := exec.Command("z3-new", "-in", "-t:2000")
	in, _ := cmd.StdinPipe()
	out, _ := cmd.StdoutPipe()
	cmd.Stderr = os.Stderr
	if err := cmd.Start(); err != nil {
		return nil, err
	}
	s := &IncSolver{cmd: cmd, in: in, out: bufio.NewReader(out), declared: map[string]bool{}, sorts: map[*Sort]bool{}, cache: map[string]bool{}}
	io.WriteString(in, s.declare([]*Term{zeroTerm(SSlice), zeroTerm(SIface)}))
	io.WriteString(in, preludeBase)
	io.WriteString(in, prelude)
	return s, nil
}

func (s *IncSolver) Close() {
	if s == nil {
		return
	}
	s.in.Close()
	s.cmd.Process.Kill()
	s.cmd.Wait()
}

func (s *IncSolver) declare(ts []*Term) string {
	order, _ := collect(ts)
	var b strings.Builder
	for _, so := range usedSorts(order) {
		if s.sorts[so] {
			continue
		}
		s.sorts[so] = true
		fmt.Fprintf(&b, "(declare-datatypes ((%s 0)) (((%s", so.Name, so.Ctor)
		for _, f := range so.Fields {
			fmt.Fprintf(&b, " (%s %s)", f.Name, f.Sort.Name)
		}
		b.WriteString("))))\n")
	}
	for _, t := range order {
		if (t.Op == "var" || t.Op == "hext") && !s.declared[t.Str] {
			s.declared[t.Str] = true
			fmt.Fprintf(&b, "(declare-fun %s () %s)\n", smtName(t.Str), t.Sort.Name)
		}
		if t.Op == "app" && !definedFuncs[t.Str] && !s.declared["app:"+t.Str] {
			s.declared["app:"+t.Str] = true
			fmt.Fprintf(&b, "(declare-fun %s (", smtName(t.Str))
			for i, a := range t.Args {
				if i > 0 {
					b.WriteByte(' ')
				}
				b.WriteString(a.Sort.Name)
			}
			fmt.Fprintf(&b, ") %s)\n", t.Sort.Name)
		}
	}
	return b.String()
}

// Feasible reports whether pc ∧ extra may be satisfiable (unknown counts as feasible).
func (s *IncSolver) Feasible(pc []*Term, extra *Term) bool {
	all := append(append([]*Term{}, pc...), extra)
	all = append(imageFacts(all), all...)
	var kb strings.Builder
	for _, t := range all {
		fmt.Fprintf(&kb, "%d,", t.id)
	}
	if r, ok := s.cache[kb.String()]; ok {
		return r
	}
	s.queries++
	var b strings.Builder
	b.WriteString(s.declare(all))
	b.WriteString("(push)\n")
	order, uses := collect(all)
	names := map[*Term]string{}
	n := 0
	for _, t := range order {
		if len(t.Args) == 0 || t.open {
			continue
		}
		if uses[t] > 1 {
			n++
			nm := fmt.Sprintf("$f%d", n)
			fmt.Fprintf(&b, "(define-fun %s () %s %s)\n", nm, t.Sort.Name, printTermShallow(t, names))
			names[t] = nm
		}
	}
	b.WriteString(hextAxioms(order, names))
	for _, t := range all {
		fmt.Fprintf(&b, "(assert %s)\n", printTerm(t, names))
	}
	marker := fmt.Sprintf("done-%d", s.queries)
	b.WriteString("(check-sat)\n(pop)\n(echo \"" + marker + "\")\n")
	if f := os.Getenv("GOVC_INCLOG"); f != "" {
		fh, _ := os.OpenFile(f, os.O_APPEND|os.O_CREATE|os.O_WRONLY, 0o644)
		fh.WriteString(b.String())
		fh.Close()
	}
	go io.WriteString(s.in, b.String())
	line := "unknown"
	for {
		l, err := s.out.ReadString('\n')
		if err != nil {
			return true
		}
		l = strings.TrimSpace(l)
		if l == marker || l == "\""+marker+"\"" {
			break
		}
		if strings.HasPrefix(l, "(error") {
			fmt.Fprintln(os.Stderr, "incremental solver:", l)
			line = "unknown"
			continue
		}
		if l == "sat" || l == "unsat" || l == "unknown" {
			line = l
		}
	}
	r := line != "unsat"
	s.cache[kb.String()] = r
	return r
}

// ---- discharge ----

type ObResult struct {
	Status   string // proved, failed, trivial, cover-ok, cover-failed
	Answer   string // unsat / sat / unknown / timeout
	Backend  string
	Seconds  float64
	Agree    []string // back ends that answered the same (thorough)
	Model    string
	SMTFile  string
	SMTBytes int
	Outputs  map[string]string
}

type backend struct {
	name string
	argv func(file string, timeout int) []string
}

var backends = []backend{
	{"z3-5.1.0", func(f string, t int) []string { return []string{"z3-new", fmt.Sprintf("-T:%d", t), f} }},
	{"z3-4.8.12", func(f string, t int) []string { return []string{"z3", fmt.Sprintf("-T:%d", t), f} }},
	{"cvc5-1.0.3", func(f string, t int) []string {
		return []string{"cvc5", "--lang=smt2", fmt.Sprintf("--tlimit=%d", t*1000), "--produce-models", f}
	}},
}

func runBackend(ctx context.Context, b backend, file string, timeout int) (string, string) {
	argv := b.argv(file, timeout)
	c, cancel := context.WithTimeout(ctx, time.Duration(timeout+2)*time.Second)
	defer cancel()
	cmd := exec.CommandContext(c, argv[0], argv[1:]...)
	var out bytes.Buffer
	cmd.Stdout = &out
	cmd.Stderr = &out
	cmd.Run()
	text := out.String()
	first := strings.TrimSpace(strings.SplitN(text, "\n", 2)[0])
	switch first {
	case "sat", "unsat", "unknown":
	case "timeout":
	default:
		if c.Err() != nil || ctx.Err() != nil {
			first = "timeout"
		} else if strings.Contains(text, "unsat") && !strings.Contains(text, "error") {
			first = "unsat"
		} else {
			first = "error"
		}
	}
	return first, text
}



// obligationChunks splits the cases of a (non-cover) obligation into several
// smaller queries; all must be unsat.
func obligationChunks(ob *Obligation, prelude string) []*Script {
	if len(ob.Cases) <= 1 && !ob.Cover {
		return []*Script{obligationScript(ob, prelude)}
	}
	if ob.Cover {
		// satisfiable as soon as one path is: try the first few paths separately
		var out []*Script
		for i := 0; i < len(ob.Cases) && i < 4; i++ {
			sub := &Obligation{Name: ob.Name, Cover: true, Cases: ob.Cases[i : i+1]}
			out = append(out, obligationScript(sub, prelude))
			// the same path without its quantified facts (models of quantified formulas are hard to find)
			var qf []*Term
			for _, t := range ob.Cases[i].pc {
				if !hasQuant(t) {
					qf = append(qf, t)
				}
			}
			if len(qf) != len(ob.Cases[i].pc) {
				sub2 := &Obligation{Name: ob.Name, Cover: true, Cases: []obCase{{pc: qf, goal: ob.Cases[i].goal}}}
				out = append(out, obligationScript(sub2, prelude))
			}
		}
		return out
	}
	// one path per query while that stays below ~48 queries, larger groups beyond
	chunkSize := (len(ob.Cases) + 2047) / 2048
	if s := os.Getenv("GOVC_CHUNK"); s != "" {
		if n, _ := strconv.Atoi(s); n > 0 {
			chunkSize = n
		}
	}
	var out []*Script
	for i := 0; i < len(ob.Cases); i += chunkSize {
		j := i + chunkSize
		if j > len(ob.Cases) {
			j = len(ob.Cases)
		}
		sub := &Obligation{Name: ob.Name, Cases: ob.Cases[i:j]}
		out = append(out, obligationScript(sub, prelude))
	}
	return out
}

func hasQuant(t *Term) bool {
	if t.Op == "forall" || t.Op == "exists" || t.Op == "hext" {
		return true
	}
	for _, a := range t.Args {
		if hasQuant(a) {
			return true
		}
	}
	return false
}

func obligationScript(ob *Obligation, prelude string) *Script {
	sc := &Script{Prelude: prelude}
	if ob.Cover {
		// satisfiable iff some case's pc (and goal) is
		var ds []*Term
		for _, c := range ob.Cases {
			ds = append(ds, And(append(append([]*Term{}, c.pc...), c.goal)...))
		}
		sc.Asserts = []*Term{Or(ds...)}
		return sc
	}
	var ds []*Term
	for _, c := range ob.Cases {
		ds = append(ds, And(append(append([]*Term{}, c.pc...), Not(c.goal))...))
	}
	sc.Asserts = []*Term{Or(ds...)}
	return sc
}

type Discharger struct {
	dir      string
	prelude  string
	timeout  int
	thorough bool
	sem      chan struct{}
}

// prepare renders the SMT text (sequential: term construction is not thread-safe).
func (d *Discharger) prepare(ob *Obligation) {
	if ob.Failure != "" || len(ob.Cases) == 0 {
		return
	}
	scs := obligationChunks(ob, d.prelude)
	ob.trivial = true
	for _, sc := range scs {
		if !ob.Cover && sc.Asserts[0].IsFalse() {
			continue
		}
		ob.trivial = false
		ob.smts = append(ob.smts, sc.Render("", true))
	}
}

func (d *Discharger) discharge(ob *Obligation) {
	if ob.Failure != "" {
		ob.Result = &ObResult{Status: "failed", Answer: "undecided: " + ob.Failure}
		return
	}
	if len(ob.Cases) == 0 {
		if ob.Cover {
			ob.Result = &ObResult{Status: "cover-failed", Answer: "no path"}
		} else {
			ob.Result = &ObResult{Status: "trivial", Answer: "unsat", Backend: "simplifier"}
		}
		return
	}
	if ob.trivial {
		ob.Result = &ObResult{Status: "trivial", Answer: "unsat", Backend: "simplifier"}
		return
	}
	want := "unsat"
	if ob.Cover {
		want = "sat"
	}
	res := &ObResult{Outputs: map[string]string{}}
	start := time.Now()
	var mu sync.Mutex
	var wg sync.WaitGroup
	type chunkRes struct {
		answer, backend, model, file string
		agree                         []string
		outs                          map[string]string
	}
	crs := make([]chunkRes, len(ob.smts))
	for ci, text := range ob.smts {
		wg.Add(1)
		go func(ci int, text string) {
			defer wg.Done()
			cr := d.solveOne(ob, ci, text)
			mu.Lock()
			crs[ci] = cr
			mu.Unlock()
		}(ci, text)
	}
	wg.Wait()
	res.Seconds = time.Since(start).Seconds()
	res.Answer = want
	if ob.Cover {
		// any satisfiable path suffices
		for _, cr := range crs {
			if cr.answer == "sat" {
				for i := range crs {
					crs[i] = cr
				}
				break
			}
		}
	}
	for ci, cr := range crs {
		res.SMTBytes += len(ob.smts[ci])
		if res.Backend == "" {
			res.Backend = cr.backend
			res.Agree = cr.agree
		}
		if cr.answer != want {
			// first failing chunk decides
			res.Answer = cr.answer
			res.Backend = cr.backend
			res.Model = cr.model
			res.SMTFile = cr.file
			for k, o := range cr.outs {
				res.Outputs[k] = o
			}
			break
		}
		if res.SMTFile == "" {
			res.SMTFile = cr.file
		}
	}
	switch {
	case res.Answer == want && !ob.Cover:
		res.Status = "proved"
	case res.Answer == want && ob.Cover:
		res.Status = "cover-ok"
	case ob.Cover:
		res.Status = "cover-failed"
	default:
		res.Status = "failed"
	}
	ob.Result = res
}

type chunkResT = struct {
	answer, backend, model, file string
	agree                         []string
	outs                          map[string]string
}

func (d *Discharger) solveOne(ob *Obligation, ci int, text string) chunkResT {
	var cr chunkResT
	cr.outs = map[string]string{}
	base := sanitize(ob.Name)
	if len(ob.smts) > 1 {
		base += fmt.Sprintf("~%d", ci)
	}
	file := filepath.Join(d.dir, base+".smt2")
	os.WriteFile(file, []byte(text), 0o644)
	cvcFile := filepath.Join(d.dir, base+".cvc5.smt2")
	os.WriteFile(cvcFile, []byte("(set-logic ALL)\n"+text), 0o644)
	cr.file = file
	start := time.Now()
	type ans struct {
		b     string
		a     string
		out   string
		after time.Duration
	}
	try := func(timeout int) []ans {
		ctx, cancel := context.WithCancel(context.Background())
		defer cancel()
		ch := make(chan ans, len(backends))
		for _, b := range backends {
			go func(b backend) {
				f := file
				if strings.HasPrefix(b.name, "cvc5") {
					f = cvcFile
				}
				d.sem <- struct{}{}
				a, out := runBackend(ctx, b, f, timeout)
				<-d.sem
				ch <- ans{b.name, a, out, time.Since(start)}
			}(b)
		}
		var got []ans
		definite := 0
		for range backends {
			x := <-ch
			got = append(got, x)
			if x.a == "sat" || x.a == "unsat" {
				definite++
				if !d.thorough || definite >= 2 {
					cancel()
					break
				}
			}
		}
		return got
	}
	decided := func(gs []ans) (string, string, []string) {
		var agree []string
		a := ""
		first := ""
		for _, g := range gs {
			if g.a == "sat" || g.a == "unsat" {
				if a == "" {
					a = g.a
					first = g.b
				}
				if g.a == a {
					agree = append(agree, g.b)
				} else {
					return "conflict", first, nil
				}
			}
		}
		return a, first, agree
	}
	// stage 1: the usually fastest back end alone, briefly
	var got []ans
	{
		d.sem <- struct{}{}
		a1, out1 := runBackend(context.Background(), backends[0], file, 3)
		<-d.sem
		got = append(got, ans{backends[0].name, a1, out1, time.Since(start)})
	}
	a, first, agree := decided(got)
	if a == "" || (d.thorough && len(agree) < 2 && !ob.Cover) {
		to := d.timeout
		if ob.Cover {
			to = 5
		}
		got = append(got, try(to)...)
		a, first, agree = decided(got)
	}
	if a == "" && !ob.Cover {
		got = append(got, try(d.timeout*3)...)
		a, first, agree = decided(got)
	}
	for _, g := range got {
		cr.outs[g.b] = truncate(g.out, 4000)
	}
	sort.Strings(agree)
	cr.agree = agree
	cr.backend = first
	if a == "" {
		a = "unknown"
		for _, g := range got {
			if g.a == "timeout" {
				a = "timeout"
			}
		}
	}
	cr.answer = a
	if a == "sat" {
		for _, g := range got {
			if g.a == "sat" {
				cr.model = g.out
				break
			}
		}
	}
	return cr
}

func truncate(s string, n int) string {
	if len(s) <= n {
		return s
	}
	return s[:n] + "…"
}

func (d *Discharger) dischargeAll(obs []*Obligation) {
	for _, ob := range obs {
		d.prepare(ob)
	}
	var wg sync.WaitGroup
	for _, ob := range obs {
		wg.Add(1)
		go func(ob *Obligation) {
			defer wg.Done()
			d.discharge(ob)
		}(ob)
	}
	wg.Wait()
}
