package main

type ReplayResult struct {
	Confirmed bool              `json:"confirmed"`
	Inputs    map[string]string `json:"inputs"`
	Call      string            `json:"call"`
	Output    string            `json:"output"`
	Note      string            `json:"note"`
	TestFile  string            `json:"test_file"`
}

func tryReplay(P *Program, v *Verifier, ob *Obligation) *ReplayResult { return nil }
