package main

// Replay of solver counterexamples against the real code: the model's values
// of the function's parameters are turned into Go literals, the real function
// is called from an in-package test injected with `go test -overlay` (nothing
// is written into the repository), and the failed clause is re-evaluated on the
// concrete inputs and the observed outputs.

import (
	"bytes"
	"context"
	"encoding/json"
	"fmt"
	"go/types"
	"os"
	"os/exec"
	"path/filepath"
	"regexp"
	"sort"
	"strconv"
	"strings"
	"time"
	"unicode"

	"golang.org/x/tools/go/ssa"
)

type ReplayResult struct {
	Confirmed bool              `json:"confirmed"`
	Inputs    map[string]string `json:"inputs"`
	Call      string            `json:"call"`
	Output    string            `json:"output"`
	Note      string            `json:"note"`
	TestFile  string            `json:"test_source"`
	Command   string            `json:"command"`
}

// sexp parsing ---------------------------------------------------------------

type sx struct {
	atom string
	list []*sx
}

func parseSX(toks []string, i int) (*sx, int) {
	if toks[i] == "(" {
		n := &sx{}
		i++
		for toks[i] != ")" {
			var c *sx
			c, i = parseSX(toks, i)
			n.list = append(n.list, c)
		}
		return n, i + 1
	}
	return &sx{atom: toks[i]}, i + 1
}

func (s *sx) String() string {
	if s.list == nil {
		return s.atom
	}
	var ps []string
	for _, c := range s.list {
		ps = append(ps, c.String())
	}
	return "(" + strings.Join(ps, " ") + ")"
}

// sxToTerm converts a ground value s-expression to a term of the given sort.
func sxToTerm(s *sx, so *Sort) (*Term, error) {
	switch so.Kind {
	case KInt:
		if s.list == nil {
			v, err := strconv.ParseInt(s.atom, 10, 64)
			if err != nil {
				return nil, fmt.Errorf("bad int %q", s.atom)
			}
			return IntLit(v), nil
		}
		if len(s.list) == 2 && s.list[0].atom == "-" {
			t, err := sxToTerm(s.list[1], so)
			if err != nil {
				return nil, err
			}
			return Neg(t), nil
		}
		if len(s.list) == 2 && s.list[0].atom == "ref" {
			n, _ := strconv.ParseInt(s.list[1].atom, 10, 64)
			return IntLit(replayRefBase + n), nil
		}
	case KArray:
		if s.list != nil && s.list[0].atom == "arr" {
			a := zeroTerm(so)
			for i, e := range s.list[1:] {
				t, err := sxToTerm(e, so.Elem)
				if err != nil {
					return nil, err
				}
				a = Store(a, IntLit(int64(i)), t)
			}
			return a, nil
		}
		// solver model syntax: ((as const (Array K V)) v) and (store a i v)
		if len(s.list) == 2 && s.list[0].list != nil && len(s.list[0].list) == 3 && s.list[0].list[0].atom == "as" && s.list[0].list[1].atom == "const" {
			t, err := sxToTerm(s.list[1], so.Elem)
			if err != nil {
				return nil, err
			}
			return ConstArr(so, t), nil
		}
		if len(s.list) == 4 && s.list[0].atom == "store" && so.Key != nil {
			a, err := sxToTerm(s.list[1], so)
			if err != nil {
				return nil, err
			}
			i, err := sxToTerm(s.list[2], so.Key)
			if err != nil {
				return nil, err
			}
			e, err := sxToTerm(s.list[3], so.Elem)
			if err != nil {
				return nil, err
			}
			return Store(a, i, e), nil
		}
	case KBool:
		if s.atom == "true" {
			return TTrue, nil
		}
		if s.atom == "false" {
			return TFalse, nil
		}
	case KString:
		if strings.HasPrefix(s.atom, "\"") {
			str := s.atom[1 : len(s.atom)-1]
			str = strings.ReplaceAll(str, `""`, `"`)
			re := regexp.MustCompile(`\\u\{([0-9a-fA-F]+)\}`)
			str = re.ReplaceAllStringFunc(str, func(m string) string {
				v, _ := strconv.ParseInt(re.FindStringSubmatch(m)[1], 16, 32)
				return string(rune(v))
			})
			return StrLit(str), nil
		}
	case KReal:
		if s.list == nil {
			return RealLit(s.atom), nil
		}
		if len(s.list) == 3 && s.list[0].atom == "/" {
			a, e1 := sxToTerm(s.list[1], so)
			b, e2 := sxToTerm(s.list[2], so)
			if e1 == nil && e2 == nil {
				return RealLit(a.Str + "/" + b.Str), nil
			}
		}
		if len(s.list) == 2 && s.list[0].atom == "-" {
			a, e := sxToTerm(s.list[1], so)
			if e == nil {
				return RealLit("-" + a.Str), nil
			}
		}
	case KDT:
		if s.list == nil && s.atom == so.Ctor && len(so.Fields) == 0 {
			return Mk(so), nil
		}
		if s.list != nil && s.list[0].atom == so.Ctor && len(s.list) == len(so.Fields)+1 {
			args := make([]*Term, len(so.Fields))
			for i, f := range so.Fields {
				a, err := sxToTerm(s.list[i+1], f.Sort)
				if err != nil {
					return nil, err
				}
				args[i] = a
			}
			return Mk(so, args...), nil
		}
	}
	return nil, fmt.Errorf("cannot read %s as %s", s, so.Name)
}

const replayRefBase = 7000000

// nilIfaces replaces every interface-valued component of a ground value by nil.
func nilIfaces(t *Term) *Term {
	if t.Sort == SIface {
		return zeroTerm(SIface)
	}
	if t.Op == "mk" {
		args := make([]*Term, len(t.Args))
		for i, a := range t.Args {
			args[i] = nilIfaces(a)
		}
		return Mk(t.Sort, args...)
	}
	return t
}

// Go literal generation -------------------------------------------------------

type litGen struct {
	own     *types.Package
	imports map[string]string
	heapVal func(cell *Sort, ref *Term) (*Term, error)
	elemVal func(arrSort *Sort, ref *Term, idx int64) (*Term, error)
	depth   int
}

func (g *litGen) qual(p *types.Package) string {
	if p == g.own {
		return ""
	}
	g.imports[p.Path()] = p.Name()
	return p.Name()
}

func (g *litGen) typeStr(T types.Type) string { return types.TypeString(T, g.qual) }

func (g *litGen) lit(t *Term, T types.Type) (string, error) {
	g.depth++
	defer func() { g.depth-- }()
	if g.depth > 10 {
		return "", fmt.Errorf("value too deep")
	}
	switch u := T.Underlying().(type) {
	case *types.Basic:
		switch {
		case u.Info()&types.IsInteger != 0:
			if !t.IsInt() {
				return "", fmt.Errorf("non-literal int")
			}
			if !t.Int.IsInt64() && !t.Int.IsUint64() {
				return "", fmt.Errorf("integer outside 64 bits")
			}
			return fmt.Sprintf("%s(%s)", g.typeStr(T), t.Int.String()), nil
		case u.Info()&types.IsBoolean != 0:
			return fmt.Sprintf("%s(%v)", g.typeStr(T), t.IsTrue()), nil
		case u.Info()&types.IsString != 0:
			if t.Op != "str" {
				return "", fmt.Errorf("non-literal string")
			}
			return fmt.Sprintf("%s(%s)", g.typeStr(T), strconv.Quote(t.Str)), nil
		case u.Info()&types.IsFloat != 0:
			if t.Op != "real" {
				return "", fmt.Errorf("non-literal real")
			}
			if strings.Contains(t.Str, "/") {
				p := strings.SplitN(t.Str, "/", 2)
				return fmt.Sprintf("%s(%s.0/%s.0)", g.typeStr(T), p[0], p[1]), nil
			}
			return fmt.Sprintf("%s(%s)", g.typeStr(T), t.Str), nil
		}
	case *types.Struct:
		if t.Op != "mk" {
			return "", fmt.Errorf("non-literal struct")
		}
		var fs []string
		for i := 0; i < u.NumFields(); i++ {
			f := u.Field(i)
			if !f.Exported() && f.Pkg() != g.own {
				return "", fmt.Errorf("unexported field %s of foreign type", f.Name())
			}
			s, err := g.lit(t.Args[i], f.Type())
			if err != nil {
				return "", err
			}
			fs = append(fs, f.Name()+": "+s)
		}
		return g.typeStr(T) + "{" + strings.Join(fs, ", ") + "}", nil
	case *types.Interface:
		// interface values cannot be built from a model; nil is used (the caller normalises the model accordingly)
		return "(" + g.typeStr(T) + ")(nil)", nil
	case *types.Pointer:
		if t.IsInt() && t.Int.Sign() == 0 {
			return "(" + g.typeStr(T) + ")(nil)", nil
		}
		if g.heapVal == nil {
			return "", fmt.Errorf("pointer")
		}
		cell := sortOf(u.Elem())
		val, err := g.heapVal(cell, t)
		if err != nil {
			return "", err
		}
		s, err := g.lit(val, u.Elem())
		if err != nil {
			return "", err
		}
		if _, ok := u.Elem().Underlying().(*types.Struct); !ok {
			// pointer to a non-struct value: the address of the only element of a one-element slice
			return "&[]" + g.typeStr(u.Elem()) + "{" + s + "}[0]", nil
		}
		return "&" + s, nil
	case *types.Slice:
		if t.Op != "mk" || !t.Args[2].IsInt() || !t.Args[1].IsInt() {
			return "", fmt.Errorf("non-literal slice header")
		}
		n := t.Args[2].Int64()
		if t.Args[0].IsInt() && t.Args[0].Int.Sign() == 0 && n == 0 {
			return "(" + g.typeStr(T) + ")(nil)", nil
		}
		if n > 24 || g.heapVal == nil {
			return "", fmt.Errorf("slice of length %d", n)
		}
		arrSort := ArraySort(SInt, sortOf(u.Elem()))
		arr, err := g.heapVal(arrSort, t.Args[0])
		if err != nil {
			return "", err
		}
		var es []string
		for i := int64(0); i < n; i++ {
			e := Select(arr, IntLit(t.Args[1].Int64()+i))
			if !e.ground {
				var err error
				e, err = g.elemVal(arrSort, t.Args[0], t.Args[1].Int64()+i)
				if err != nil {
					return "", err
				}
			}
			s, err := g.lit(e, u.Elem())
			if err != nil {
				return "", err
			}
			es = append(es, s)
		}
		return g.typeStr(T) + "{" + strings.Join(es, ", ") + "}", nil
	case *types.Array:
		var es []string
		for i := int64(0); i < u.Len(); i++ {
			e := Select(t, IntLit(i))
			s, err := g.lit(e, u.Elem())
			if err != nil {
				return "", err
			}
			es = append(es, s)
		}
		return g.typeStr(T) + "{" + strings.Join(es, ", ") + "}", nil
	}
	if sig, ok := T.Underlying().(*types.Signature); ok {
		// a function value: nil if the model says so, otherwise a function that does nothing and returns zero values
		if t.IsInt() && t.Int.Sign() == 0 {
			return "(" + g.typeStr(T) + ")(nil)", nil
		}
		var ps, rs []string
		for i := 0; i < sig.Params().Len(); i++ {
			pt := g.typeStr(sig.Params().At(i).Type())
			if sig.Variadic() && i == sig.Params().Len()-1 {
				pt = "..." + strings.TrimPrefix(pt, "[]")
			}
			ps = append(ps, fmt.Sprintf("_ %s", pt))
		}
		body := ""
		for i := 0; i < sig.Results().Len(); i++ {
			rs = append(rs, fmt.Sprintf("r%d %s", i, g.typeStr(sig.Results().At(i).Type())))
			body = " return "
		}
		return "func(" + strings.Join(ps, ", ") + ") (" + strings.Join(rs, ", ") + ") {" + body + "}", nil
	}
	return "", fmt.Errorf("values of type %s are not constructible from a model", T)
}

// smtPrinter is Go source appended to the generated test: prints a value as an
// SMT-LIB literal of govc's sort for its type.
const smtPrinterSrc = `
func govcSMT(v reflect.Value) string {
	switch v.Kind() {
	case reflect.Int, reflect.Int8, reflect.Int16, reflect.Int32, reflect.Int64:
		if v.Int() < 0 {
			return fmt.Sprintf("(- %d)", -v.Int())
		}
		return fmt.Sprint(v.Int())
	case reflect.Uint, reflect.Uint8, reflect.Uint16, reflect.Uint32, reflect.Uint64:
		return fmt.Sprint(v.Uint())
	case reflect.Bool:
		return fmt.Sprint(v.Bool())
	case reflect.String:
		return strconv.Quote(v.String())
	case reflect.Struct:
		t := v.Type()
		name := "mk_T_" + govcSan(t.PkgPath()[strings.LastIndex(t.PkgPath(), "/")+1:]+"."+t.Name())
		if t.PkgPath() == "" || t.Name() == "" {
			return "?"
		}
		s := "(" + name
		for i := 0; i < v.NumField(); i++ {
			s += " " + govcSMT(v.Field(i))
		}
		if v.NumField() == 0 {
			return name
		}
		return s + ")"
	case reflect.Interface:
		if v.IsNil() {
			return "(mk_Iface 0 0)"
		}
		return "(mk_Iface 1 1)"
	case reflect.Ptr:
		if v.IsNil() {
			return "0"
		}
		if v.Elem().Kind() != reflect.Struct {
			return "?"
		}
		if id, ok := govcCells[v.Pointer()]; ok {
			return fmt.Sprintf("(ref %d)", id)
		}
		id := len(govcCells) + 1
		govcCells[v.Pointer()] = id
		val := govcSMT(v.Elem())
		t := v.Elem().Type()
		fmt.Printf("GOVC-CELL %d T_%s %s\n", id, govcSan(t.PkgPath()[strings.LastIndex(t.PkgPath(), "/")+1:]+"."+t.Name()), val)
		return fmt.Sprintf("(ref %d)", id)
	case reflect.Array:
		s := "(arr"
		for i := 0; i < v.Len(); i++ {
			s += " " + govcSMT(v.Index(i))
		}
		return s + ")"
	}
	return "?"
}

var govcCells = map[uintptr]int{}

func govcSan(s string) string {
	var b strings.Builder
	for _, r := range s {
		switch {
		case r >= 'a' && r <= 'z', r >= 'A' && r <= 'Z', r >= '0' && r <= '9', r == '_':
			b.WriteRune(r)
		default:
			b.WriteString("_")
		}
	}
	return b.String()
}
`

// tryReplay replays the solver's model; a model the real code does not confirm (the verifier's abstraction of a
// library or of float arithmetic left it a freedom the code does not have) is excluded and the next one tried.
func tryReplay(P *Program, v *Verifier, ob *Obligation) *ReplayResult {
	files := ob.Result.SatFiles
	if len(files) == 0 {
		files = []string{ob.Result.SMTFile}
	}
	if len(files) > 6 {
		files = files[:6]
	}
	var best *ReplayResult
	saved := ob.Result.SMTFile
	defer func() { ob.Result.SMTFile = saved }()
	for _, f := range files {
		ob.Result.SMTFile = f
		rr := tryReplayFile(P, v, ob)
		if rr != nil && rr.Confirmed {
			return rr
		}
		if best == nil {
			best = rr
		}
	}
	return best
}

func tryReplayFile(P *Program, v *Verifier, ob *Obligation) *ReplayResult {
	var rr *ReplayResult
	// first among small inputs (integers in -1..4, slices of at most 3 elements), then among all
	for _, small := range []bool{true, false} {
		extra := ""
		if small {
			extra = smallInputAsserts(ob)
			if extra == "" {
				continue
			}
		}
		for attempt := 0; attempt < 5; attempt++ {
			var block string
			rr, block = tryReplayOnce(P, v, ob, extra)
			if rr.Confirmed {
				return rr
			}
			if block == "" || !strings.HasPrefix(rr.Note, "model-spurious") {
				break
			}
			extra += block + "\n"
			rr.Note += fmt.Sprintf(" (after %d excluded models)", attempt+1)
		}
		if rr != nil && !strings.Contains(rr.Note, "did not reproduce") && !strings.HasPrefix(rr.Note, "model-spurious") && !strings.Contains(rr.Note, "not constructible") {
			break
		}
	}
	// The solver's models were all spurious: typically the path goes through an uninterpreted function of a string
	// (a library parser), whose values the solver invents. The first string parameter is then pinned, in turn, to
	// each text of a small fixed pool (numerals with leading zeros, signs, prefixes, separators, non-ASCII) and
	// the query is solved again; a model that exists for such a text is replayed like any other.
	if rr != nil && strings.HasPrefix(rr.Note, "model-spurious") && ob.Fn != nil {
		key := funcKey(ob.Fn)
		for _, p := range ob.Fn.Params {
			if b, ok := p.Type().Underlying().(*types.Basic); !ok || b.Kind() != types.String {
				continue
			}
			n := smtName(fmt.Sprintf("p$%s@%s", p.Name(), sanitize(key)))
			for _, cand := range replayStringPool {
				extra := fmt.Sprintf("(assert (= %s %s))\n", n, StrLit(cand).String())
				r2, _ := tryReplayOnce(P, v, ob, extra)
				if r2 != nil && r2.Confirmed {
					r2.Note += " (input taken from the fixed pool of texts after the solver's own models proved spurious)"
					return r2
				}
			}
			break
		}
	}
	return rr
}

var replayStringPool = []string{"08", "010", "0x10", "0b11", "0o17", "1_0", "+1", "-1", "00", "007", " 1", "1 ", "1e3", "a", "Z", "é", "♯", "１"}

// smallInputAsserts bounds the integer leaves of the parameters (and the lengths of their slices) to small values.
func smallInputAsserts(ob *Obligation) string {
	fn := ob.Fn
	if fn == nil {
		return ""
	}
	text := ""
	if ob.Result != nil && ob.Result.SMTFile != "" {
		if b, err := os.ReadFile(ob.Result.SMTFile); err == nil {
			text = string(b)
		}
	}
	key := funcKey(fn)
	var out []string
	// the walk follows the Go type: integers are bounded, slices are short, pointers to structs and the first
	// elements of slices are followed through the pre-state heaps the query mentions
	var walk func(expr string, T types.Type, depth int)
	walk = func(expr string, T types.Type, depth int) {
		if depth > 5 || len(out) > 120 {
			return
		}
		switch u := T.Underlying().(type) {
		case *types.Basic:
			if u.Info()&types.IsInteger != 0 {
				out = append(out, fmt.Sprintf("(assert (and (<= (- 1) %s) (<= %s 4)))", expr, expr))
			}
		case *types.Slice:
			out = append(out, fmt.Sprintf("(assert (<= (Slice_len %s) 3))", expr))
			hn := smtName(heapName(ArraySort(SInt, sortOf(u.Elem()))) + "@0")
			if text != "" && strings.Contains(text, hn) && depth < 3 {
				switch u.Elem().Underlying().(type) {
				case *types.Struct, *types.Pointer, *types.Slice:
					for i := 0; i < 2; i++ {
						walk(fmt.Sprintf("(select (select %s (Slice_arr %s)) (+ (Slice_off %s) %d))", hn, expr, expr, i), u.Elem(), depth+2)
					}
				}
			}
		case *types.Struct:
			so := sortOf(T)
			if so.Kind != KDT || len(so.Fields) != u.NumFields() {
				return
			}
			for i, f := range so.Fields {
				walk("("+f.Name+" "+expr+")", u.Field(i).Type(), depth+1)
			}
		case *types.Pointer:
			if _, ok := u.Elem().Underlying().(*types.Struct); !ok {
				return
			}
			hn := smtName(heapName(sortOf(u.Elem())) + "@0")
			if text != "" && strings.Contains(text, hn) {
				walk(fmt.Sprintf("(select %s %s)", hn, expr), u.Elem(), depth+1)
			}
		}
	}
	for _, p := range fn.Params {
		n := smtName(fmt.Sprintf("p$%s@%s", p.Name(), sanitize(key)))
		walk(n, p.Type(), 0)
	}
	return strings.Join(out, "\n") + "\n"
}

func tryReplayOnce(P *Program, v *Verifier, ob *Obligation, extra string) (*ReplayResult, string) {
	rr0, blk := tryReplayOnce1(P, v, ob, extra)
	return rr0, blk
}

var lastBlock string

func tryReplayOnce1(P *Program, v *Verifier, ob *Obligation, extra string) (*ReplayResult, string) {
	lastBlock = ""
	rr := tryReplayBody(P, v, ob, extra)
	return rr, lastBlock
}

func tryReplayBody(P *Program, v *Verifier, ob *Obligation, extra string) *ReplayResult {
	fn := ob.Fn
	rr := &ReplayResult{Inputs: map[string]string{}}
	nilled := false
	if fn == nil || fn.Pkg == nil || ob.Result == nil || ob.Result.SMTFile == "" {
		rr.Note = "no function or SMT file"
		return rr
	}
	if fn.Signature.TypeParams() != nil || len(fn.TypeArgs()) > 0 || fn.Parent() != nil {
		rr.Note = "generic functions and closures are not replayed"
		return rr
	}
	key := funcKey(fn)
	c := P.Contracts[key]
	if c == nil {
		rr.Note = "no contract"
		return rr
	}
	// 1. model values of the parameters
	smt, err := os.ReadFile(ob.Result.SMTFile)
	if err != nil {
		rr.Note = "SMT file unavailable"
		return rr
	}
	text := string(smt)
	if extra != "" {
		text = strings.Replace(text, "(check-sat)", extra+"(check-sat)", 1)
	}
	var names []string
	pterm := map[string]*ssa.Parameter{}
	for _, p := range fn.Params {
		n := fmt.Sprintf("p$%s@%s", p.Name(), sanitize(key))
		if strings.Contains(text, smtName(n)) {
			names = append(names, n)
		}
		pterm[n] = p
	}
	getValue := func(exprs []string) (map[string]*sx, error) {
		q := strings.Replace(text, "(get-model)", "(get-value ("+strings.Join(exprs, " ")+"))", 1)
		f := ob.Result.SMTFile + ".gv.smt2"
		os.WriteFile(f, []byte(q), 0o644)
		defer os.Remove(f)
		ctx, cancel := context.WithTimeout(context.Background(), 40*time.Second)
		defer cancel()
		out, _ := exec.CommandContext(ctx, "z3-new", "-T:30", f).CombinedOutput()
		s := string(out)
		if !strings.HasPrefix(strings.TrimSpace(s), "sat") {
			return nil, fmt.Errorf("solver did not reproduce the model: %s", truncate(s, 200))
		}
		s = s[strings.Index(s, "sat")+3:]
		toks := tokenizeSExp(s)
		if len(toks) == 0 {
			return nil, fmt.Errorf("empty get-value answer")
		}
		root, _ := parseSX(toks, 0)
		res := map[string]*sx{}
		for i, pair := range root.list {
			if i < len(exprs) && len(pair.list) == 2 {
				res[exprs[i]] = pair.list[1]
			}
		}
		return res, nil
	}
	vals := map[*ssa.Parameter]*Term{}
	if len(names) > 0 {
		var exprs []string
		for _, n := range names {
			exprs = append(exprs, smtName(n))
		}
		got, err := getValue(exprs)
		if err != nil {
			rr.Note = err.Error()
			return rr
		}
		{
			var eqs []string
			for _, n := range names {
				if x := got[smtName(n)]; x != nil {
					eqs = append(eqs, "(= "+smtName(n)+" "+x.String()+")")
				}
			}
			if len(eqs) > 0 {
				lastBlock = "(assert (not (and " + strings.Join(eqs, " ") + ")))"
			}
		}
		for _, n := range names {
			p := pterm[n]
			t, err := sxToTerm(got[smtName(n)], sortOf(p.Type()))
			if err != nil {
				rr.Note = "model value of " + p.Name() + ": " + err.Error()
				return rr
			}
			if t2 := nilIfaces(t); t2 != t {
				// a run whose inputs were changed this way no longer satisfies the preconditions the model
				// satisfied, so a panic of the real function on them confirms nothing
				nilled = true
				t = t2
			}
			vals[p] = t
			rr.Inputs[p.Name()] = t.String()
		}
	}
	for _, p := range fn.Params {
		if _, ok := vals[p]; !ok {
			vals[p] = zeroTerm(sortOf(p.Type())) // unconstrained by the query
			rr.Inputs[p.Name()] = vals[p].String() + " (unconstrained)"
		}
	}
	// 2. generate the test
	heapCache := map[string]*Term{}
	gen := &litGen{own: fn.Pkg.Pkg, imports: map[string]string{}}
	gen.heapVal = func(cell *Sort, ref *Term) (*Term, error) {
		hn := heapName(cell) + "@0"
		k := hn + "#" + ref.String()
		if t, ok := heapCache[k]; ok {
			return t, nil
		}
		if !strings.Contains(text, smtName(hn)) {
			t := zeroTerm(cell)
			heapCache[k] = t
			return t, nil
		}
		if cell.Kind == KArray {
			// element-wise on demand
			t := Var(fmt.Sprintf("arrcell!%s!%s", sanitize(hn), sanitize(ref.String())), cell)
			heapCache[k] = t
			return t, nil
		}
		e := "(select " + smtName(hn) + " " + ref.String() + ")"
		got, err := getValue([]string{e})
		if err != nil {
			return nil, err
		}
		t, err := sxToTerm(got[e], cell)
		if err != nil {
			return nil, err
		}
		if t2 := nilIfaces(t); t2 != t {
			nilled = true
			t = t2
		}
		heapCache[k] = t
		rr.Inputs["*"+ref.String()+":"+cell.Name] = t.String()
		return t, nil
	}
	gen.elemVal = func(arrSort *Sort, ref *Term, idx int64) (*Term, error) {
		hn := heapName(arrSort) + "@0"
		if !strings.Contains(text, smtName(hn)) {
			return zeroTerm(arrSort.Elem), nil
		}
		e := fmt.Sprintf("(select (select %s %s) %d)", smtName(hn), ref.String(), idx)
		got, err := getValue([]string{e})
		if err != nil {
			return nil, err
		}
		t, err := sxToTerm(got[e], arrSort.Elem)
		if err != nil {
			return nil, err
		}
		rr.Inputs[fmt.Sprintf("%s[%d]", ref.String(), idx)] = t.String()
		return t, nil
	}
	var args []string
	for _, p := range fn.Params {
		s, err := gen.lit(vals[p], p.Type())
		if err != nil {
			rr.Note = "parameter " + p.Name() + " not constructible: " + err.Error()
			return rr
		}
		args = append(args, s)
	}
	call := ""
	var anames []string
	for i := range args {
		anames = append(anames, fmt.Sprintf("a%d", i))
	}
	if fn.Signature.Recv() != nil {
		call = "(a0)." + fn.Name() + "(" + strings.Join(anames[1:], ", ") + ")"
		rr.Call = "(" + args[0] + ")." + fn.Name() + "(" + strings.Join(args[1:], ", ") + ")"
	} else {
		call = fn.Name() + "(" + strings.Join(anames, ", ") + ")"
		rr.Call = fn.Name() + "(" + strings.Join(args, ", ") + ")"
	}
	nres := fn.Signature.Results().Len()
	var lhs []string
	for i := 0; i < nres; i++ {
		lhs = append(lhs, fmt.Sprintf("r%d", i))
	}
	var src bytes.Buffer
	fmt.Fprintf(&src, "package %s\n\nimport (\n\t\"fmt\"\n\t\"reflect\"\n\t\"strconv\"\n\t\"strings\"\n\t\"testing\"\n", fn.Pkg.Pkg.Name())
	var ips []string
	for p := range gen.imports {
		ips = append(ips, p)
	}
	sort.Strings(ips)
	for _, p := range ips {
		fmt.Fprintf(&src, "\t%s %q\n", gen.imports[p], p)
	}
	fmt.Fprintf(&src, ")\n\nvar _ = strconv.Quote\nvar _ = strings.Join\n\nfunc TestGovcReplay(t *testing.T) {\n\tdefer func() {\n\t\tif r := recover(); r != nil {\n\t\t\tfmt.Printf(\"GOVC-PANIC %%v\\n\", r)\n\t\t}\n\t}()\n")
	for i, a := range args {
		fmt.Fprintf(&src, "\ta%d := %s\n\t_ = a%d\n", i, a, i)
	}
	if nres > 0 {
		fmt.Fprintf(&src, "\t%s := %s\n", strings.Join(lhs, ", "), call)
		for i := range lhs {
			fmt.Fprintf(&src, "\tfmt.Printf(\"GOVC-RESULT %d %%s\\n\", govcSMT(reflect.ValueOf(&r%d).Elem()))\n", i, i)
		}
	} else {
		fmt.Fprintf(&src, "\t%s\n", call)
	}
	for i, p := range fn.Params {
		if pt, ok := p.Type().Underlying().(*types.Pointer); ok {
			if _, isStruct := pt.Elem().Underlying().(*types.Struct); isStruct && vals[p].IsInt() && vals[p].Int.Sign() != 0 {
				fmt.Fprintf(&src, "\tfmt.Printf(\"GOVC-PCELL %s %s %%s\\n\", govcSMT(reflect.ValueOf(a%d).Elem()))\n", vals[p].Int.String(), sortOf(pt.Elem()).Name, i)
			}
		}
	}
	fmt.Fprintf(&src, "\tfmt.Println(\"GOVC-DONE\")\n}\n%s", smtPrinterSrc)
	rr.TestFile = src.String()
	// 3. run it through an overlay
	dir := filepath.Dir(P.Prog.Fset.Position(fn.Pos()).Filename)
	tmp, _ := os.MkdirTemp("", "govc-replay-")
	defer os.RemoveAll(tmp)
	testFile := filepath.Join(tmp, "zz_govc_replay_test.go")
	os.WriteFile(testFile, src.Bytes(), 0o644)
	ov := map[string]any{"Replace": map[string]string{filepath.Join(dir, "zz_govc_replay_test.go"): testFile}}
	ovData, _ := json.Marshal(ov)
	ovFile := filepath.Join(tmp, "overlay.json")
	os.WriteFile(ovFile, ovData, 0o644)
	cmdline := []string{"go", "test", "-tags", "verif", "-overlay", ovFile, "-vet=off", "-count=1", "-timeout", "60s", "-run", "^TestGovcReplay$", "-v", "."}
	rr.Command = "cd " + dir + " && ulimit -v 8000000 && " + strings.Join(cmdline, " ")
	ctx, cancel := context.WithTimeout(context.Background(), 180*time.Second)
	defer cancel()
	cmd := exec.CommandContext(ctx, "bash", "-c", "ulimit -v 8000000; exec "+strings.Join(cmdline, " "))
	cmd.Dir = dir
	out, _ := cmd.CombinedOutput()
	rr.Output = truncate(string(out), 3000)
	if strings.Contains(string(out), "GOVC-PANIC") || strings.Contains(string(out), "panic:") || strings.Contains(string(out), "fatal error") {
		if nilled {
			rr.Note = "the model needs a non-nil interface value, which replay cannot build; the panic on nil is not the model's run"
			return rr
		}
		if ob.Kind == "safe" || ob.Kind == "post" || ob.Kind == "pre" {
			rr.Confirmed = true
			rr.Note = "the real function panics on the model's input"
		}
		return rr
	}
	if !strings.Contains(string(out), "GOVC-DONE") {
		rr.Note = "replay did not complete"
		return rr
	}
	if ob.Kind != "post" {
		rr.Note = "call completed; this obligation kind is not re-evaluated on concrete values"
		return rr
	}
	// 4. re-evaluate the failed clause on concrete inputs/outputs
	idx := strings.LastIndex(ob.Name, "#")
	ci, err := strconv.Atoi(ob.Name[idx+1:])
	if err != nil || ci < 1 || ci > len(c.Ensures) {
		rr.Note = "clause not identified"
		return rr
	}
	results := map[int]*Term{}
	postCells := map[string]*Term{}
	for _, line := range strings.Split(string(out), "\n") {
		if strings.HasPrefix(line, "GOVC-PCELL ") {
			f := strings.SplitN(line, " ", 4)
			so := dtSorts[f[2]]
			if so == nil || strings.Contains(f[3], "?") {
				continue
			}
			toks := tokenizeSExp(f[3])
			sxv, _ := parseSX(toks, 0)
			t, err := sxToTerm(sxv, so)
			if err != nil {
				continue
			}
			postCells[fmt.Sprintf("%s#%s", heapName(so), f[1])] = t
			continue
		}
		if strings.HasPrefix(line, "GOVC-CELL ") {
			f := strings.SplitN(line, " ", 4)
			so := dtSorts[f[2]]
			if so == nil || strings.Contains(f[3], "?") {
				continue
			}
			toks := tokenizeSExp(f[3])
			sxv, _ := parseSX(toks, 0)
			t, err := sxToTerm(sxv, so)
			if err != nil {
				continue
			}
			n, _ := strconv.ParseInt(f[1], 10, 64)
			postCells[fmt.Sprintf("%s#%d", heapName(so), replayRefBase+n)] = t
		}
	}
	for _, line := range strings.Split(string(out), "\n") {
		if strings.HasPrefix(line, "GOVC-RESULT ") {
			f := strings.SplitN(line, " ", 3)
			i, _ := strconv.Atoi(f[1])
			if strings.Contains(f[2], "?") {
				rr.Note = "result " + f[1] + " is not first-order data"
				return rr
			}
			toks := tokenizeSExp(f[2])
			s, _ := parseSX(toks, 0)
			t, err := sxToTerm(s, sortOf(fn.Signature.Results().At(i).Type()))
			if err != nil {
				rr.Note = "result " + f[1] + ": " + err.Error()
				return rr
			}
			results[i] = t
		}
	}
	confirmed, note := v.evalClauseConcrete(fn, c, ci-1, vals, results, heapCache, postCells)
	rr.Confirmed = confirmed
	rr.Note = note
	return rr
}

// evalClauseConcrete decides requires ∧ ¬ensures[ci] for concrete values.
func (v *Verifier) evalClauseConcrete(fn *ssa.Function, c *Contract, ci int, vals map[*ssa.Parameter]*Term, results map[int]*Term, heap map[string]*Term, postCells map[string]*Term) (ok bool, note string) {
	defer func() {
		if r := recover(); r != nil {
			ok, note = false, fmt.Sprint("clause not evaluable on concrete values: ", r)
		}
	}()
	st := newState()
	fr := &Frame{fn: fn, block: fn.Blocks[0], visits: map[int]int{}, cuts: map[int]*cutInfo{}}
	st.frames = []*Frame{fr}
	for p, t := range vals {
		st.env[p] = t
	}
	// heap cells read while building the literals
	for k, t := range heap {
		i := strings.LastIndex(k, "#")
		hn, refs := k[:i], k[i+1:]
		ref, err := strconv.ParseInt(strings.Trim(strings.ReplaceAll(strings.ReplaceAll(refs, "(- ", "-"), ")", ""), " "), 10, 64)
		if err != nil {
			continue
		}
		base, okh := st.heap[strings.TrimSuffix(hn, "@0")]
		if !okh {
			base = Var(hn, heapSort(t.Sort))
		}
		st.heap[strings.TrimSuffix(hn, "@0")] = Store(base, IntLit(ref), t)
	}
	saved := v.entry
	v.entry = st.clone()
	defer func() { v.entry = saved }()
	pre := st.clone()
	for k, t := range postCells {
		i := strings.LastIndex(k, "#")
		hn := k[:i]
		ref, _ := strconv.ParseInt(k[i+1:], 10, 64)
		base, okh := st.heap[hn]
		if !okh {
			base = Var(hn+"@0", heapSort(t.Sort))
		}
		st.heap[hn] = Store(base, IntLit(ref), t)
	}
	// objects created by the call are "fresh": below the water mark of the pre-state
	env := &SpecEnv{v: v, st: st, pkg: c.Pkg.Types, vars: map[string]SVal{}, fr: fr, oldHeap: pre.heap, oldLW: IntLit(replayRefBase)}
	for _, p := range fn.Params {
		env.vars[p.Name()] = SVal{vals[p], p.Type()}
	}
	for i, n := range c.Results {
		if t, ok := results[i]; ok {
			env.vars[n] = SVal{t, fn.Signature.Results().At(i).Type()}
		}
	}
	var hyp []*Term
	for _, r := range c.Requires {
		hyp = append(hyp, env.evalBool(r.Expr))
	}
	g0 := ghostReads
	goal := env.evalBool(c.Ensures[ci].Expr)
	if ghostReads != g0 {
		return false, "the clause reads ghost state (a history variable), which a run of the real code does not produce: not re-evaluated"
	}
	// uninterpreted specification functions: the solver would be free to pick their values, so a clause that
	// mentions one is decided only when every application has ground arguments and a meaning computable here
	facts, why := concreteSpecFacts(append(append([]*Term{}, hyp...), goal))
	if why != "" {
		return false, "the clause mentions " + why + ", which has no value in a run of the real code: not re-evaluated"
	}
	sc := &Script{Prelude: loadPreludeCached, Asserts: append(append(hyp, facts...), Not(goal))}
	text := sc.Render("", false)
	tmp, _ := os.CreateTemp("", "govc-concrete-*.smt2")
	tmp.WriteString(text)
	tmp.Close()
	defer os.Remove(tmp.Name())
	a, out := runBackend(context.Background(), backends[0], tmp.Name(), 20)
	switch a {
	case "sat":
		return true, "the real function's result violates the clause: " + c.Ensures[ci].Text
	case "unsat":
		return false, "model-spurious: the real function satisfies the clause on the model's input (an abstraction in the verifier is too coarse)"
	}
	return false, "concrete re-evaluation undecided: " + truncate(out, 200)
}

var loadPreludeCached string

// concreteSpecFacts gives the applications of uninterpreted (declare-fun) specification functions occurring in ts
// their real values: dec is the decimal rendering, parse10_* is strconv.ParseUint(s, 10, 64), is_space is
// unicode.IsSpace. Any other uninterpreted function, or a non-ground application, is reported in why.
func concreteSpecFacts(ts []*Term) (facts []*Term, why string) {
	seen := map[*Term]bool{}
	var rec func(x *Term)
	rec = func(x *Term) {
		if seen[x] || why != "" {
			return
		}
		seen[x] = true
		for _, a := range x.Args {
			rec(a)
		}
		if x.Op != "app" || !preludeIsDeclared(x.Str) {
			return
		}
		bad := func() { why = "the uninterpreted specification function " + x.Str }
		for _, a := range x.Args {
			if !a.IsLit() && !(a.Op == "str") {
				bad()
				return
			}
		}
		switch x.Str {
		case "dec":
			if len(x.Args) == 1 && x.Args[0].IsInt() && x.Args[0].Int.Sign() >= 0 {
				facts = append(facts, Eq(x, StrLit(x.Args[0].Int.String())))
				return
			}
		case "parse10_ok", "parse10_val":
			if len(x.Args) == 1 && x.Args[0].Op == "str" {
				u, err := strconv.ParseUint(x.Args[0].Str, 10, 64)
				if x.Str == "parse10_ok" {
					facts = append(facts, Eq(x, BoolLit(err == nil)))
				} else if err == nil {
					facts = append(facts, Eq(x, IntBig(newBigU(u))))
				}
				return
			}
		case "is_space":
			if len(x.Args) == 1 && x.Args[0].IsInt() {
				r := x.Args[0].Int64()
				facts = append(facts, Eq(x, BoolLit(r >= 0 && unicode.IsSpace(rune(r)))))
				return
			}
		}
		bad()
	}
	for _, t := range ts {
		rec(t)
	}
	return facts, why
}
