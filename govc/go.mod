module govc

go 1.24.0

require golang.org/x/tools v0.30.0

require (
	golang.org/x/mod v0.23.0 // indirect
	golang.org/x/sync v0.11.0 // indirect
)
