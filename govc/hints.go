package main

// Proof hints: for an obligation that needs only a few of its many hypotheses,
// the set of hypotheses found in a solver's unsat core is remembered (as
// structural fingerprints that ignore fresh-name counters) in
// /verif/hints/<property>.json. A later run first tries the obligation with just
// those hypotheses. Hints can only drop hypotheses, so a proof found with them is
// a proof; when they no longer fit the code the check falls back to the full query.

import (
	"context"
	"encoding/json"
	"fmt"
	"hash/fnv"
	"os"
	"path/filepath"
	"regexp"
	"sort"
	"strings"
)

var (
	fpCache   = map[*Term]uint64{}
	fpDigits  = regexp.MustCompile(`[0-9]+`)
	hintTable = map[string]map[string]bool{} // obligation -> fingerprints
	hintsPath string
	learnMode bool
)

func termFP(t *Term) uint64 {
	if v, ok := fpCache[t]; ok {
		return v
	}
	h := fnv.New64a()
	h.Write([]byte(t.Op))
	h.Write([]byte{0})
	h.Write([]byte(t.Sort.Name))
	h.Write([]byte{0})
	switch t.Op {
	case "var", "bvar", "hext":
		h.Write([]byte(fpDigits.ReplaceAllString(t.Str, "#")))
	case "int":
		h.Write([]byte(t.Int.String()))
	default:
		h.Write([]byte(t.Str))
	}
	fmt.Fprintf(h, "|%d", t.Idx)
	for _, a := range t.Args {
		fmt.Fprintf(h, ",%x", termFP(a))
	}
	for _, b := range t.Bound {
		fmt.Fprintf(h, ";%x", termFP(b))
	}
	v := h.Sum64()
	fpCache[t] = v
	return v
}

func loadHints(prop string) {
	hintTable = map[string]map[string]bool{}
	hintsPath = filepath.Join(verifDir, "hints", prop+".json")
	data, err := os.ReadFile(hintsPath)
	if err != nil {
		return
	}
	var raw map[string][]string
	if json.Unmarshal(data, &raw) != nil {
		return
	}
	for k, fps := range raw {
		m := map[string]bool{}
		for _, f := range fps {
			m[f] = true
		}
		hintTable[k] = m
	}
}

func saveHints() {
	raw := map[string][]string{}
	for k, m := range hintTable {
		var fps []string
		for f := range m {
			fps = append(fps, f)
		}
		sort.Strings(fps)
		raw[k] = fps
	}
	os.MkdirAll(filepath.Dir(hintsPath), 0o755)
	data, _ := json.MarshalIndent(raw, "", " ")
	os.WriteFile(hintsPath, data, 0o644)
}

// hintedPC selects the hypotheses named by the hints of an obligation.
func hintedPC(name string, pc []*Term) ([]*Term, bool) {
	m, ok := hintTable[name]
	if !ok || len(m) == 0 {
		return nil, false
	}
	var out []*Term
	for _, t := range pc {
		if m[fmt.Sprintf("%x", termFP(t))] {
			out = append(out, t)
		}
	}
	return out, true
}

// learnCore runs z3 with unsat-core production on one case and records the core.
func (d *Discharger) learnCore(ob *Obligation, c obCase, timeout int) bool {
	termMu.Lock()
	unlocked := false
	unlock := func() {
		if !unlocked {
			unlocked = true
			termMu.Unlock()
		}
	}
	defer unlock()
	sc := &Script{Prelude: d.prelude}
	// render with named hypotheses: build the text by hand around Render's declarations
	all := append(append([]*Term{}, c.pc...), Not(c.goal))
	sc.Asserts = all
	text := sc.Render("", false)
	// Render asserted the image facts first, then our terms in order; re-label the last len(all) asserts
	lines := strings.Split(text, "\n")
	var idx []int
	for i, l := range lines {
		if strings.HasPrefix(l, "(assert ") && !strings.Contains(l, ":pattern") {
			idx = append(idx, i)
		}
	}
	if len(idx) < len(all) {
		return false
	}
	idx = idx[len(idx)-len(all):]
	for k, li := range idx {
		body := strings.TrimSuffix(strings.TrimPrefix(lines[li], "(assert "), ")")
		lines[li] = fmt.Sprintf("(assert (! %s :named h%d))", body, k)
	}
	out := "(set-option :produce-unsat-cores true)\n" + strings.Join(lines, "\n")
	out = strings.Replace(out, "(check-sat)", "(check-sat)\n(get-unsat-core)", 1)
	f := filepath.Join(d.dir, sanitize(ob.Name)+fmt.Sprintf(".core%d.smt2", len(hintTable)))
	os.WriteFile(f, []byte(out), 0o644)
	unlock()
	d.sem <- struct{}{}
	a, res := runBackend(context.Background(), backends[0], f, timeout)
	<-d.sem
	if a != "unsat" {
		return false
	}
	coreLine := ""
	for _, l := range strings.Split(res, "\n") {
		if strings.HasPrefix(strings.TrimSpace(l), "(h") || strings.HasPrefix(strings.TrimSpace(l), "(") && strings.Contains(l, " h") {
			coreLine += " " + l
		}
	}
	names := regexp.MustCompile(`h[0-9]+`).FindAllString(coreLine, -1)
	termMu.Lock()
	defer termMu.Unlock()
	hintMu.Lock()
	defer hintMu.Unlock()
	m := hintTable[ob.Name]
	if m == nil {
		m = map[string]bool{}
		hintTable[ob.Name] = m
	}
	for _, n := range names {
		var k int
		fmt.Sscanf(n, "h%d", &k)
		if k < len(c.pc) {
			m[fmt.Sprintf("%x", termFP(c.pc[k]))] = true
		}
	}
	return true
}
