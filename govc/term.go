package main

// Hash-consed SMT terms with a small simplifier. Every Go value that the
// symbolic executor manipulates is one of these terms (plus a few Go-side-only
// wrappers: tuples, locations, iterators).

import (
	"fmt"
	"math/big"
	"sort"
	"strconv"
	"strings"
)

type SortKind int

const (
	KInt SortKind = iota
	KBool
	KReal
	KString
	KArray
	KDT
	KNone // Go-side only (tuple, loc, iterator)
)

type Sort struct {
	Kind   SortKind
	Name   string // SMT name
	Key    *Sort  // arrays
	Elem   *Sort  // arrays
	Fields []SortField
	Ctor   string
}

type SortField struct {
	Name string // selector name (SMT)
	Go   string // Go field name
	Acc  string // the name the selector is made from, when it is not the Go name (a renamed field keeps its selector: names.go)
	Sort *Sort
}

var (
	SInt    = &Sort{Kind: KInt, Name: "Int"}
	SBool   = &Sort{Kind: KBool, Name: "Bool"}
	SReal   = &Sort{Kind: KReal, Name: "Real"}
	SString = &Sort{Kind: KString, Name: "String"}
	SNone   = &Sort{Kind: KNone, Name: "<none>"}

	arraySorts = map[string]*Sort{}
	dtSorts    = map[string]*Sort{}
	dtOrder    []*Sort
)

func ArraySort(k, e *Sort) *Sort {
	n := "(Array " + k.Name + " " + e.Name + ")"
	if s, ok := arraySorts[n]; ok {
		return s
	}
	s := &Sort{Kind: KArray, Name: n, Key: k, Elem: e}
	arraySorts[n] = s
	return s
}

// NewDT registers a datatype; fields may be filled in later (recursive types
// are not supported: pointers are Ints, so no recursion arises).
func NewDT(name string, fields []SortField) *Sort {
	if s, ok := dtSorts[name]; ok {
		return s
	}
	s := &Sort{Kind: KDT, Name: name, Ctor: "mk_" + name}
	for i := range fields {
		base := fields[i].Go
		if fields[i].Acc != "" {
			base = fields[i].Acc
		}
		fields[i].Name = name + "_" + sanitize(base)
	}
	s.Fields = fields
	dtSorts[name] = s
	dtOrder = append(dtOrder, s)
	return s
}

func sanitize(s string) string {
	var b strings.Builder
	for _, r := range s {
		switch {
		case r >= 'a' && r <= 'z', r >= 'A' && r <= 'Z', r >= '0' && r <= '9', r == '_':
			b.WriteRune(r)
		case r == '.' || r == '/':
			b.WriteRune('_')
		case r == '*':
			b.WriteString("P")
		case r == '[' || r == ']':
			b.WriteString("S")
		default:
			b.WriteString("_")
		}
	}
	return b.String()
}

// Slice and interface sorts (shared by all element / dynamic types).
var (
	SSlice = NewDT("Slice", []SortField{{Go: "arr", Sort: SInt}, {Go: "off", Sort: SInt}, {Go: "len", Sort: SInt}})
	SIface = NewDT("Iface", []SortField{{Go: "tag", Sort: SInt}, {Go: "val", Sort: SInt}})
)

type Term struct {
	id    int
	Op    string
	Args  []*Term
	Sort  *Sort
	Int   *big.Int // Op == "int"
	Str   string   // Op == "str" (value), "var" (name), "app" (function), "real" (decimal text)
	Bound []*Term  // Op == "forall"/"exists": bound vars
	Idx   int      // Op == "sel": field index
	open  bool     // contains bound variables
	ground bool    // literal, or constructor applied to ground terms
	// Go-side payloads
	Extra any
}

var (
	internTab = map[string]*Term{}
	termCount int
)

func intern(t *Term) *Term {
	var b strings.Builder
	b.WriteString(t.Op)
	b.WriteByte('|')
	b.WriteString(t.Sort.Name)
	b.WriteByte('|')
	if t.Int != nil {
		b.WriteString(t.Int.String())
	}
	b.WriteByte('|')
	b.WriteString(t.Str)
	b.WriteByte('|')
	b.WriteString(strconv.Itoa(t.Idx))
	for _, a := range t.Args {
		b.WriteByte(',')
		b.WriteString(strconv.Itoa(a.id))
	}
	for _, a := range t.Bound {
		b.WriteByte(';')
		b.WriteString(strconv.Itoa(a.id))
	}
	if t.Extra != nil {
		// Go-side terms are never shared
		termCount++
		t.id = termCount
		return t
	}
	k := b.String()
	if x, ok := internTab[k]; ok {
		return x
	}
	termCount++
	t.id = termCount
	for _, a := range t.Args {
		if a.open {
			t.open = true
		}
	}
	if t.Op == "bvar" {
		t.open = true
	}
	switch t.Op {
	case "int", "bool", "str", "real":
		t.ground = true
	case "mk":
		t.ground = true
		for _, a := range t.Args {
			if !a.ground {
				t.ground = false
			}
		}
	}
	internTab[k] = t
	return t
}

// ---- constructors ----

func IntLit(v int64) *Term { return IntBig(big.NewInt(v)) }
func IntBig(v *big.Int) *Term {
	return intern(&Term{Op: "int", Sort: SInt, Int: new(big.Int).Set(v)})
}
func BoolLit(b bool) *Term {
	if b {
		return TTrue
	}
	return TFalse
}
func StrLit(s string) *Term { return intern(&Term{Op: "str", Sort: SString, Str: s}) }
func RealLit(s string) *Term {
	// s: decimal or "n/d"; canonicalised so that equal values are the same term
	r, ok := new(big.Rat).SetString(s)
	if !ok {
		panic("bad real literal " + s)
	}
	c := r.Num().String()
	if !r.IsInt() {
		c += "/" + r.Denom().String()
	}
	return intern(&Term{Op: "real", Sort: SReal, Str: c})
}
func Var(name string, s *Sort) *Term { return intern(&Term{Op: "var", Sort: s, Str: name}) }
func BVar(name string, s *Sort) *Term {
	return intern(&Term{Op: "bvar", Sort: s, Str: name})
}

var (
	TTrue  = intern(&Term{Op: "bool", Sort: SBool, Str: "true"})
	TFalse = intern(&Term{Op: "bool", Sort: SBool, Str: "false"})
)

var freshCounter int

func Fresh(prefix string, s *Sort) *Term {
	freshCounter++
	return Var(fmt.Sprintf("%s!%d", sanitize(prefix), freshCounter), s)
}

func (t *Term) IsInt() bool   { return t.Op == "int" }
func (t *Term) IsTrue() bool  { return t == TTrue }
func (t *Term) IsFalse() bool { return t == TFalse }
func (t *Term) IsLit() bool {
	return t.Op == "int" || t.Op == "bool" || t.Op == "str" || t.Op == "real"
}
func (t *Term) Int64() int64 { return t.Int.Int64() }

func mk(op string, s *Sort, args ...*Term) *Term {
	return intern(&Term{Op: op, Sort: s, Args: args})
}

func Not(a *Term) *Term {
	switch {
	case a.IsTrue():
		return TFalse
	case a.IsFalse():
		return TTrue
	case a.Op == "not":
		return a.Args[0]
	}
	return mk("not", SBool, a)
}

func And(as ...*Term) *Term {
	var out []*Term
	seen := map[int]bool{}
	for _, a := range as {
		if a.IsFalse() {
			return TFalse
		}
		if a.IsTrue() {
			continue
		}
		if a.Op == "and" {
			for _, x := range a.Args {
				if !seen[x.id] {
					seen[x.id] = true
					out = append(out, x)
				}
			}
			continue
		}
		if !seen[a.id] {
			seen[a.id] = true
			out = append(out, a)
		}
	}
	for _, a := range out {
		if seen[Not(a).id] {
			return TFalse
		}
	}
	switch len(out) {
	case 0:
		return TTrue
	case 1:
		return out[0]
	}
	return mk("and", SBool, out...)
}

func Or(as ...*Term) *Term {
	var out []*Term
	seen := map[int]bool{}
	for _, a := range as {
		if a.IsTrue() {
			return TTrue
		}
		if a.IsFalse() {
			continue
		}
		if a.Op == "or" {
			for _, x := range a.Args {
				if !seen[x.id] {
					seen[x.id] = true
					out = append(out, x)
				}
			}
			continue
		}
		if !seen[a.id] {
			seen[a.id] = true
			out = append(out, a)
		}
	}
	for _, a := range out {
		if seen[Not(a).id] {
			return TTrue
		}
	}
	switch len(out) {
	case 0:
		return TFalse
	case 1:
		return out[0]
	}
	return mk("or", SBool, out...)
}

func Implies(a, b *Term) *Term {
	if a.IsTrue() {
		return b
	}
	if a.IsFalse() || b.IsTrue() {
		return TTrue
	}
	if b.IsFalse() {
		return Not(a)
	}
	return mk("=>", SBool, a, b)
}

func Ite(c, a, b *Term) *Term {
	if c.IsTrue() {
		return a
	}
	if c.IsFalse() {
		return b
	}
	if a == b {
		return a
	}
	if a.Sort == SBool {
		if a.IsTrue() && b.IsFalse() {
			return c
		}
		if a.IsFalse() && b.IsTrue() {
			return Not(c)
		}
	}
	return mk("ite", a.Sort, c, a, b)
}

func Eq(a, b *Term) *Term {
	if a == b {
		return TTrue
	}
	if a.Sort != b.Sort {
		panic(fmt.Sprintf("Eq sort mismatch: %s : %s vs %s : %s", a, a.Sort.Name, b, b.Sort.Name))
	}
	if a.ground && b.ground {
		return TFalse // distinct hash-consed ground values of the same sort
	}
	if a.Sort == SBool {
		if a.IsTrue() {
			return b
		}
		if b.IsTrue() {
			return a
		}
		if a.IsFalse() {
			return Not(b)
		}
		if b.IsFalse() {
			return Not(a)
		}
	}
	if a.Op == "str.++" && b.Op == "str.++" && len(a.Args) == 2 && len(b.Args) == 2 && a.Args[1] == b.Args[1] && a.Args[0].Op == "str" && b.Args[0].Op == "str" {
		return TFalse // different literal prefixes before the same suffix
	}
	if (a.Op == "str.++" && b.Op == "app" && b.Str == "dec" && len(a.Args) == 2 && a.Args[1] == b && a.Args[0].Op == "str" && a.Args[0].Str != "") ||
		(b.Op == "str.++" && a.Op == "app" && a.Str == "dec" && len(b.Args) == 2 && b.Args[1] == a && b.Args[0].Op == "str" && b.Args[0].Str != "") {
		return TFalse // a non-empty prefix makes the string longer
	}
	if a.Op == "mk" && b.Op == "mk" {
		cs := make([]*Term, len(a.Args))
		for i := range a.Args {
			cs[i] = Eq(a.Args[i], b.Args[i])
		}
		return And(cs...)
	}
	// ite with literal branches against literal
	if b.IsLit() && a.Op == "ite" && a.Args[1].IsLit() && a.Args[2].IsLit() {
		return Ite(a.Args[0], Eq(a.Args[1], b), Eq(a.Args[2], b))
	}
	if a.IsLit() && b.Op == "ite" && b.Args[1].IsLit() && b.Args[2].IsLit() {
		return Ite(b.Args[0], Eq(b.Args[1], a), Eq(b.Args[2], a))
	}
	if a.id > b.id {
		a, b = b, a
	}
	return mk("=", SBool, a, b)
}

func Neq(a, b *Term) *Term { return Not(Eq(a, b)) }

func arith(op string, a, b *Term) *Term {
	if a.IsInt() && b.IsInt() {
		r := new(big.Int)
		switch op {
		case "+":
			r.Add(a.Int, b.Int)
		case "-":
			r.Sub(a.Int, b.Int)
		case "*":
			r.Mul(a.Int, b.Int)
		}
		return IntBig(r)
	}
	switch op {
	case "+":
		if a.IsInt() && a.Int.Sign() == 0 {
			return b
		}
		if b.IsInt() && b.Int.Sign() == 0 {
			return a
		}
		// (x + c1) + c2
		if b.IsInt() && a.Op == "+" && len(a.Args) == 2 && a.Args[1].IsInt() {
			return arith("+", a.Args[0], arith("+", a.Args[1], b))
		}
		if b.IsInt() && a.Op == "-" && len(a.Args) == 2 && a.Args[1].IsInt() {
			return arith("+", a.Args[0], arith("-", b, a.Args[1]))
		}
		if b.IsInt() && b.Int.Sign() < 0 {
			return mk("-", a.Sort, a, IntBig(new(big.Int).Neg(b.Int)))
		}
	case "-":
		if b.IsInt() && b.Int.Sign() == 0 {
			return a
		}
		if a == b {
			return zeroOf(a.Sort)
		}
		if b.IsInt() {
			return arith("+", a, IntBig(new(big.Int).Neg(b.Int)))
		}
	case "*":
		if a.IsInt() && a.Int.Sign() == 0 || b.IsInt() && b.Int.Sign() == 0 {
			if a.Sort == SInt {
				return IntLit(0)
			}
		}
		if a.IsInt() && a.Int.Cmp(big.NewInt(1)) == 0 {
			return b
		}
		if b.IsInt() && b.Int.Cmp(big.NewInt(1)) == 0 {
			return a
		}
	}
	return mk(op, a.Sort, a, b)
}

func zeroOf(s *Sort) *Term {
	if s == SReal {
		return RealLit("0.0")
	}
	return IntLit(0)
}

func Add(a, b *Term) *Term { return arith("+", a, b) }
func Sub(a, b *Term) *Term { return arith("-", a, b) }
func Mul(a, b *Term) *Term { return arith("*", a, b) }
func Neg(a *Term) *Term {
	if a.IsInt() {
		return IntBig(new(big.Int).Neg(a.Int))
	}
	return mk("-", a.Sort, a)
}

func cmp(op string, a, b *Term) *Term {
	if a.IsInt() && b.IsInt() {
		c := a.Int.Cmp(b.Int)
		switch op {
		case "<":
			return BoolLit(c < 0)
		case "<=":
			return BoolLit(c <= 0)
		}
	}
	if a == b {
		return BoolLit(op == "<=")
	}
	return mk(op, SBool, a, b)
}
func Lt(a, b *Term) *Term { return cmp("<", a, b) }
func Le(a, b *Term) *Term { return cmp("<=", a, b) }
func Gt(a, b *Term) *Term { return cmp("<", b, a) }
func Ge(a, b *Term) *Term { return cmp("<=", b, a) }

// SMT (Euclidean, for positive divisor floor) div and mod.
func SDiv(a, b *Term) *Term {
	if a.IsInt() && b.IsInt() && b.Int.Sign() > 0 {
		q, m := new(big.Int), new(big.Int)
		q.DivMod(a.Int, b.Int, m)
		return IntBig(q)
	}
	return mk("div", SInt, a, b)
}
func SMod(a, b *Term) *Term {
	if a.IsInt() && b.IsInt() && b.Int.Sign() > 0 {
		q, m := new(big.Int), new(big.Int)
		q.DivMod(a.Int, b.Int, m)
		return IntBig(m)
	}
	return mk("mod", SInt, a, b)
}

// Go's truncated division and remainder.
func GoDiv(a, b *Term) *Term {
	if a.IsInt() && b.IsInt() && b.Int.Sign() != 0 {
		return IntBig(new(big.Int).Quo(a.Int, b.Int))
	}
	return App("go_div", SInt, a, b)
}
func GoRem(a, b *Term) *Term {
	if a.IsInt() && b.IsInt() && b.Int.Sign() != 0 {
		return IntBig(new(big.Int).Rem(a.Int, b.Int))
	}
	return App("go_rem", SInt, a, b)
}

func App(fn string, s *Sort, args ...*Term) *Term {
	allGround := true
	for _, a := range args {
		if !a.ground {
			allGround = false
			break
		}
	}
	if allGround {
		if r, ok := evalSpecApp(fn, args, 0); ok && r.Sort == s {
			return r
		}
	}
	return intern(&Term{Op: "app", Sort: s, Str: fn, Args: args})
}

func Select(a, i *Term) *Term {
	if a.Sort.Kind != KArray {
		panic("select on non-array " + a.Sort.Name)
	}
	if a.Sort.Key != i.Sort {
		panic(fmt.Sprintf("select index sort %s on %s", i.Sort.Name, a.Sort.Name))
	}
	for {
		switch a.Op {
		case "store":
			j := a.Args[1]
			if i == j {
				return a.Args[2]
			}
			if i.ground && j.ground {
				a = a.Args[0]
				continue
			}
			if (i.IsInt() && i.Int.Sign() >= 0 && notGlobalRef[j]) || (j.IsInt() && j.Int.Sign() >= 0 && notGlobalRef[i]) {
				// the cell of a captured local variable is not a package-level object
				a = a.Args[0]
				continue
			}
			if offsetDistinct(i, j) {
				// two references below the same water mark at different offsets
				a = a.Args[0]
				continue
			}
			if j.IsInt() && j.Int.Sign() < 0 && nonNegRef[i] {
				// a pre-state reference never aliases a cell allocated by this function
				a = a.Args[0]
				continue
			}
		case "constarr":
			return a.Args[0]
		case "hext":
			// heap after a call that only allocates: old cells keep their content
			old, fresh, lw := a.Args[0], a.Args[1], a.Args[2]
			c := Ge(i, lw)
			if nonNegRef[i] || (i.IsInt() && lw.IsInt() && i.Int.Cmp(lw.Int) >= 0) {
				c = TTrue
			}
			if i.IsInt() && i.Int.Sign() >= 0 && !lw.IsInt() {
				// water marks are symbolic and never above 0 (fresh references are negative): a global's or
				// a pre-state literal reference is always on the old side
				c = TTrue
			}
			return Ite(c, Select(old, i), Select(fresh, i))
		case "var":
			if v := initImageLookup(a, i); v != nil {
				return v
			}
		case "ite":
			if i.IsLit() {
				return Ite(a.Args[0], Select(a.Args[1], i), Select(a.Args[2], i))
			}
		}
		break
	}
	return mk("select", a.Sort.Elem, a, i)
}

func Store(a, i, v *Term) *Term {
	if a.Sort.Kind != KArray {
		panic("store on non-array")
	}
	if v.Sort != a.Sort.Elem {
		panic(fmt.Sprintf("store elem sort mismatch: %s into %s", v.Sort.Name, a.Sort.Name))
	}
	if a.Sort.Key != i.Sort {
		panic(fmt.Sprintf("store index sort %s on %s", i.Sort.Name, a.Sort.Name))
	}
	if a.Op == "store" && a.Args[1] == i {
		a = a.Args[0]
	}
	return mk("store", a.Sort, a, i, v)
}

func ConstArr(s *Sort, v *Term) *Term { return mk("constarr", s, v) }

// HeapExt: the heap after code that may only allocate new cells (below lw).
func HeapExt(old, lw *Term) *Term {
	fresh := Fresh("Hfresh", old.Sort)
	freshCounter++
	return intern(&Term{Op: "hext", Sort: old.Sort, Args: []*Term{old, fresh, lw}, Str: fmt.Sprintf("Hext!%d", freshCounter)})
}

func Mk(s *Sort, args ...*Term) *Term {
	if len(args) != len(s.Fields) {
		panic("Mk arity " + s.Name)
	}
	for i, a := range args {
		if a.Sort != s.Fields[i].Sort {
			panic(fmt.Sprintf("Mk %s field %s: got %s want %s", s.Name, s.Fields[i].Go, a.Sort.Name, s.Fields[i].Sort.Name))
		}
	}
	// mk(sel0 x, sel1 x, ...) -> x
	if len(args) > 0 && args[0].Op == "sel" && args[0].Idx == 0 {
		x := args[0].Args[0]
		if x.Sort == s {
			all := true
			for i, a := range args {
				if a.Op != "sel" || a.Idx != i || a.Args[0] != x {
					all = false
					break
				}
			}
			if all {
				return x
			}
		}
	}
	return mk("mk", s, args...)
}

func Sel(t *Term, i int) *Term {
	if t.Sort.Kind != KDT {
		panic("Sel on non-DT " + t.Sort.Name + " " + t.String())
	}
	if t.Op == "mk" {
		return t.Args[i]
	}
	if t.Op == "ite" {
		return Ite(t.Args[0], Sel(t.Args[1], i), Sel(t.Args[2], i))
	}
	return intern(&Term{Op: "sel", Sort: t.Sort.Fields[i].Sort, Args: []*Term{t}, Idx: i})
}

func SelName(t *Term, goName string) *Term {
	for i, f := range t.Sort.Fields {
		if f.Go == goName {
			return Sel(t, i)
		}
	}
	for i, f := range t.Sort.Fields {
		if f.Acc != "" && f.Acc == goName {
			return Sel(t, i)
		}
	}
	panic("no field " + goName + " in " + t.Sort.Name)
}

func Upd(t *Term, i int, v *Term) *Term {
	args := make([]*Term, len(t.Sort.Fields))
	for k := range args {
		if k == i {
			args[k] = v
		} else {
			args[k] = Sel(t, k)
		}
	}
	return Mk(t.Sort, args...)
}

func Forall(bound []*Term, body *Term) *Term {
	if body.IsTrue() {
		return TTrue
	}
	if !body.open {
		return body
	}
	t := &Term{Op: "forall", Sort: SBool, Args: []*Term{body}, Bound: bound}
	r := intern(t)
	// open iff body mentions bvars other than own; approximate: recompute
	r.open = hasFreeBVar(body, bound)
	return r
}

func Exists(bound []*Term, body *Term) *Term {
	if !body.open {
		return body
	}
	t := &Term{Op: "exists", Sort: SBool, Args: []*Term{body}, Bound: bound}
	r := intern(t)
	r.open = hasFreeBVar(body, bound)
	return r
}

func hasFreeBVar(t *Term, bound []*Term) bool {
	if !t.open {
		return false
	}
	if t.Op == "bvar" {
		for _, b := range bound {
			if b == t {
				return false
			}
		}
		return true
	}
	if t.Op == "forall" || t.Op == "exists" {
		return hasFreeBVar(t.Args[0], append(append([]*Term{}, bound...), t.Bound...))
	}
	for _, a := range t.Args {
		if hasFreeBVar(a, bound) {
			return true
		}
	}
	return false
}

// Subst replaces variables (by term identity) throughout t.
func Subst(t *Term, m map[*Term]*Term) *Term {
	memo := map[*Term]*Term{}
	var rec func(*Term) *Term
	rec = func(t *Term) *Term {
		if r, ok := m[t]; ok {
			return r
		}
		if len(t.Args) == 0 {
			return t
		}
		if r, ok := memo[t]; ok {
			return r
		}
		args := make([]*Term, len(t.Args))
		ch := false
		for i, a := range t.Args {
			args[i] = rec(a)
			if args[i] != a {
				ch = true
			}
		}
		r := t
		if ch {
			r = rebuild(t, args)
		}
		memo[t] = r
		return r
	}
	return rec(t)
}

func rebuild(t *Term, a []*Term) *Term {
	switch t.Op {
	case "not":
		return Not(a[0])
	case "and":
		return And(a...)
	case "or":
		return Or(a...)
	case "=>":
		return Implies(a[0], a[1])
	case "ite":
		return Ite(a[0], a[1], a[2])
	case "=":
		return Eq(a[0], a[1])
	case "+", "*":
		if len(a) == 2 {
			return arith(t.Op, a[0], a[1])
		}
	case "-":
		if len(a) == 2 {
			return arith("-", a[0], a[1])
		}
		return Neg(a[0])
	case "<":
		return Lt(a[0], a[1])
	case "<=":
		return Le(a[0], a[1])
	case "div":
		return SDiv(a[0], a[1])
	case "mod":
		return SMod(a[0], a[1])
	case "select":
		return Select(a[0], a[1])
	case "store":
		return Store(a[0], a[1], a[2])
	case "mk":
		return Mk(t.Sort, a...)
	case "sel":
		return Sel(a[0], t.Idx)
	case "app":
		if t.Str == "go_div" {
			return GoDiv(a[0], a[1])
		}
		if t.Str == "go_rem" {
			return GoRem(a[0], a[1])
		}
		return App(t.Str, t.Sort, a...)
	case "forall":
		return Forall(t.Bound, a[0])
	case "exists":
		return Exists(t.Bound, a[0])
	}
	return intern(&Term{Op: t.Op, Sort: t.Sort, Args: a, Str: t.Str, Int: t.Int, Idx: t.Idx, Bound: t.Bound})
}

// ---- printing ----

func smtString(s string) string {
	var b strings.Builder
	b.WriteByte('"')
	for _, r := range s {
		switch {
		case r == '"':
			b.WriteString(`""`)
		case r < 32 || r > 126 || r == '\\':
			fmt.Fprintf(&b, `\u{%x}`, r)
		default:
			b.WriteRune(r)
		}
	}
	b.WriteByte('"')
	return b.String()
}

func smtName(s string) string {
	ok := true
	for _, r := range s {
		if !(r >= 'a' && r <= 'z' || r >= 'A' && r <= 'Z' || r >= '0' && r <= '9' || strings.ContainsRune("_.!$", r)) {
			ok = false
		}
	}
	if ok {
		return s
	}
	return "|" + s + "|"
}

func (t *Term) head() string {
	switch t.Op {
	case "int":
		if t.Int.Sign() < 0 {
			return "(- " + new(big.Int).Neg(t.Int).String() + ")"
		}
		return t.Int.String()
	case "bool":
		return t.Str
	case "str":
		return smtString(t.Str)
	case "real":
		neg := strings.HasPrefix(t.Str, "-")
		body := strings.TrimPrefix(t.Str, "-")
		var out string
		if strings.Contains(body, "/") {
			p := strings.SplitN(body, "/", 2)
			out = "(/ " + p[0] + ".0 " + p[1] + ".0)"
		} else {
			out = body + ".0"
		}
		if neg {
			return "(- " + out + ")"
		}
		return out
	}
	switch t.Op {
	case "real!unused":
		if !strings.Contains(t.Str, ".") {
			return t.Str + ".0"
		}
		return t.Str
	case "var", "bvar", "hext":
		return smtName(t.Str)
	}
	return ""
}

// String prints the term as a tree (debugging; may be large).
func (t *Term) String() string {
	return printTerm(t, nil)
}

func printTerm(t *Term, names map[*Term]string) string {
	if names != nil {
		if n, ok := names[t]; ok {
			return n
		}
	}
	if h := t.head(); h != "" {
		return h
	}
	var b strings.Builder
	switch t.Op {
	case "constarr":
		return "((as const " + t.Sort.Name + ") " + printTerm(t.Args[0], names) + ")"
	case "mk":
		if len(t.Args) == 0 {
			return t.Sort.Ctor
		}
		b.WriteString("(" + t.Sort.Ctor)
	case "sel":
		b.WriteString("(" + t.Args[0].Sort.Fields[t.Idx].Name)
	case "app":
		if len(t.Args) == 0 {
			return smtName(t.Str)
		}
		b.WriteString("(" + smtName(t.Str))
	case "forall", "exists":
		b.WriteString("(" + t.Op + " (")
		for _, v := range t.Bound {
			b.WriteString("(" + smtName(v.Str) + " " + v.Sort.Name + ")")
		}
		b.WriteString(") " + printTerm(t.Args[0], names) + ")")
		return b.String()
	case "-":
		b.WriteString("(-")
	default:
		b.WriteString("(" + t.Op)
	}
	for _, a := range t.Args {
		b.WriteByte(' ')
		b.WriteString(printTerm(a, names))
	}
	b.WriteByte(')')
	return b.String()
}

// Script builds a self-contained SMT-LIB script for a set of assertions.
type Script struct {
	Prelude string
	Asserts []*Term
}

func collect(ts []*Term) (order []*Term, uses map[*Term]int) {
	uses = map[*Term]int{}
	seen := map[*Term]bool{}
	var rec func(*Term)
	rec = func(t *Term) {
		uses[t]++
		if seen[t] {
			return
		}
		seen[t] = true
		for _, a := range t.Args {
			rec(a)
		}
		order = append(order, t)
	}
	for _, t := range ts {
		rec(t)
	}
	return
}

func usedSorts(order []*Term) []*Sort {
	seen := map[*Sort]bool{}
	var out []*Sort
	var add func(*Sort)
	add = func(s *Sort) {
		if s == nil || seen[s] {
			return
		}
		seen[s] = true
		add(s.Key)
		add(s.Elem)
		for _, f := range s.Fields {
			add(f.Sort)
		}
		if s.Kind == KDT {
			out = append(out, s)
		}
	}
	add(SSlice)
	add(SIface)
	for _, t := range order {
		add(t.Sort)
		for _, b := range t.Bound {
			add(b.Sort)
		}
	}
	return out
}

// imageFacts: for every initial heap H@0 mentioned, the cells fixed by package
// initialisation whose reference literal occurs in the terms (to a fixpoint).
func imageFacts(ts []*Term) []*Term {
	var facts []*Term
	done := map[string]bool{}
	work := ts
	for len(work) > 0 {
		order, _ := collect(work)
		work = nil
		heaps := map[*Term]bool{}
		lits := map[string]bool{}
		for _, t := range order {
			if t.Op == "var" && strings.HasSuffix(t.Str, "@0") {
				if _, ok := initImage[t.Str]; ok {
					heaps[t] = true
				}
			}
			if t.Op == "int" && t.Int.Cmp(big.NewInt(1000)) > 0 {
				lits[t.Int.String()] = true
			}
		}
		for h := range heaps {
			img := initImage[h.Str]
			for k, val := range img {
				if !lits[k] || done[h.Str+"#"+k] {
					continue
				}
				done[h.Str+"#"+k] = true
				ref, _ := new(big.Int).SetString(k, 10)
				f := mk("=", SBool, mk("select", h.Sort.Elem, h, IntBig(ref)), val)
				facts = append(facts, f)
				work = append(work, f)
			}
		}
	}
	sort.Slice(facts, func(i, j int) bool { return facts[i].id < facts[j].id })
	return facts
}

// ---- specification prelude, included selectively ----

type preludeForm struct {
	name string
	text string
	refs []string
}

var (
	preludeForms  []*preludeForm
	preludeByName = map[string]*preludeForm{}
)

func parsePreludeForms(text string) {
	preludeForms = nil
	preludeByName = map[string]*preludeForm{}
	// split into top-level s-expressions, keeping the original text
	depth := 0
	start := -1
	i := 0
	for i < len(text) {
		c := text[i]
		switch {
		case c == ';':
			for i < len(text) && text[i] != '\n' {
				i++
			}
			continue
		case c == '"':
			i++
			for i < len(text) && text[i] != '"' {
				i++
			}
		case c == '(':
			if depth == 0 {
				start = i
			}
			depth++
		case c == ')':
			depth--
			if depth == 0 && start >= 0 {
				ft := text[start : i+1]
				toks := tokenizeSExp(ft)
				f := &preludeForm{text: ft}
				if len(toks) > 2 {
					f.name = toks[2]
				}
				seen := map[string]bool{}
				for _, t := range toks[3:] {
					if t != "(" && t != ")" && !seen[t] {
						seen[t] = true
						f.refs = append(f.refs, t)
					}
				}
				preludeForms = append(preludeForms, f)
				preludeByName[f.name] = f
				start = -1
			}
		}
		i++
	}
}

// formText: recursive definitions are given to the solver as uninterpreted functions; their
// unfoldings at the applications that occur are supplied as hypotheses (see unfoldings).
func formText(f *preludeForm) string {
	if !strings.HasPrefix(f.text, "(define-fun-rec") {
		return f.text
	}
	sf, ok := specFuncs[f.name]
	if !ok {
		return f.text
	}
	var as []string
	for _, a := range sf.Args {
		as = append(as, a.Name)
	}
	return "(declare-fun " + f.name + " (" + strings.Join(as, " ") + ") " + sf.Ret.Name + ")"
}

// neededForms: definitions (transitively) used by the terms, in file order.
func neededForms(order []*Term) []*preludeForm {
	need := map[string]bool{}
	var visit func(n string)
	visit = func(n string) {
		f, ok := preludeByName[n]
		if !ok || need[n] {
			return
		}
		need[n] = true
		for _, r := range f.refs {
			visit(r)
		}
	}
	for _, t := range order {
		if t.Op == "app" {
			visit(t.Str)
		}
	}
	var out []*preludeForm
	for _, f := range preludeForms {
		if need[f.name] {
			out = append(out, f)
		}
	}
	return out
}

func usedSortsWith(order []*Term, forms []*preludeForm) []*Sort {
	extra := []*Term{}
	for _, f := range forms {
		for _, r := range f.refs {
			if so, ok := dtSorts[r]; ok {
				extra = append(extra, zeroTerm(so))
			}
		}
	}
	if len(extra) == 0 {
		return usedSorts(order)
	}
	o2, _ := collect(extra)
	return usedSorts(append(append([]*Term{}, order...), o2...))
}

func (sc *Script) Render(logic string, getModel bool) string {
	sc.Asserts = append(imageFacts(sc.Asserts), sc.Asserts...)
	order, uses := collect(sc.Asserts)
	var b strings.Builder
	if getModel {
		b.WriteString("(set-option :produce-models true)\n")
	}
	if logic != "" {
		b.WriteString("(set-logic " + logic + ")\n")
	}
	forms := neededForms(order)
	for _, s := range usedSortsWith(order, forms) {
		fmt.Fprintf(&b, "(declare-datatypes ((%s 0)) (((%s", s.Name, s.Ctor)
		for _, f := range s.Fields {
			fmt.Fprintf(&b, " (%s %s)", f.Name, f.Sort.Name)
		}
		b.WriteString("))))\n")
	}
	b.WriteString(preludeBase)
	for _, f := range forms {
		b.WriteString(formText(f))
		b.WriteString("\n")
	}
	// declarations
	var vars []*Term
	apps := map[string]*Term{}
	for _, t := range order {
		if t.Op == "var" || t.Op == "hext" {
			vars = append(vars, t)
		}
		if t.Op == "app" && !definedFuncs[t.Str] {
			if _, ok := apps[t.Str]; !ok {
				apps[t.Str] = t
			}
		}
	}
	sort.Slice(vars, func(i, j int) bool { return vars[i].Str < vars[j].Str })
	for _, v := range vars {
		fmt.Fprintf(&b, "(declare-fun %s () %s)\n", smtName(v.Str), v.Sort.Name)
	}
	var appNames []string
	for n := range apps {
		appNames = append(appNames, n)
	}
	sort.Strings(appNames)
	for _, n := range appNames {
		t := apps[n]
		fmt.Fprintf(&b, "(declare-fun %s (", smtName(n))
		for i, a := range t.Args {
			if i > 0 {
				b.WriteByte(' ')
			}
			b.WriteString(a.Sort.Name)
		}
		fmt.Fprintf(&b, ") %s)\n", t.Sort.Name)
	}
	// shared closed subterms become definitions
	names := map[*Term]string{}
	n := 0
	for _, t := range order {
		if len(t.Args) == 0 || t.open {
			continue
		}
		if uses[t] > 1 && t.Sort.Kind != KNone {
			n++
			nm := fmt.Sprintf("$t%d", n)
			body := printTermShallow(t, names)
			fmt.Fprintf(&b, "(define-fun %s () %s %s)\n", nm, t.Sort.Name, body)
			names[t] = nm
		}
	}
	b.WriteString(hextAxioms(order, names))
	for _, a := range sc.Asserts {
		fmt.Fprintf(&b, "(assert %s)\n", printTerm(a, names))
	}
	b.WriteString("(check-sat)\n")
	if getModel {
		b.WriteString("(get-model)\n")
	}
	return b.String()
}

// hextAxioms defines every heap-extension array that survives in the output:
// cells at or above its water mark are those of the old heap.
func hextAxioms(order []*Term, names map[*Term]string) string {
	var b strings.Builder
	for _, t := range order {
		if t.Op != "hext" {
			continue
		}
		n := smtName(t.Str)
		fmt.Fprintf(&b, "(assert (forall ((r$h Int)) (! (= (select %s r$h) (ite (>= r$h %s) (select %s r$h) (select %s r$h))) :pattern ((select %s r$h)))))\n",
			n, printTerm(t.Args[2], names), printTerm(t.Args[0], names), printTerm(t.Args[1], names), n)
	}
	return b.String()
}

// printTermShallow prints t without replacing t itself by its name.
func printTermShallow(t *Term, names map[*Term]string) string {
	saved, had := names[t]
	delete(names, t)
	s := printTerm(t, names)
	if had {
		names[t] = saved
	}
	return s
}

var definedFuncs = map[string]bool{"go_div": true, "go_rem": true, "round_half_away": true, "to_real": true, "to_int": true}

const preludeBase = `(define-fun go_div ((a Int) (b Int)) Int (ite (>= a 0) (ite (> b 0) (div a b) (- (div a (- b)))) (ite (> b 0) (- (div (- a) b)) (div (- a) (- b)))))
(define-fun go_rem ((a Int) (b Int)) Int (- a (* b (go_div a b))))
(define-fun round_half_away ((x Real)) Int (ite (>= x 0.0) (to_int (+ x 0.5)) (- (to_int (+ (- x) 0.5)))))
`

// nonNegRef: terms known to denote pre-state references (>= 0).
var nonNegRef = map[*Term]bool{}

// preState: the term reads only parameters and the initial heap.
func preState(t *Term) bool {
	switch t.Op {
	case "var":
		return strings.HasPrefix(t.Str, "p$") || strings.HasSuffix(t.Str, "@0")
	case "sel":
		return preState(t.Args[0])
	case "select":
		return preState(t.Args[0]) && (preState(t.Args[1]) || t.Args[1].ground)
	case "+", "-":
		for _, a := range t.Args {
			if !a.ground && !preState(a) {
				return false
			}
		}
		return true
	}
	return false
}

// initImageLookup: hook filled by the global-initialiser interpreter.
var initImage = map[string]map[string]*Term{} // heap var name -> ref literal text -> value

func initImageLookup(a, i *Term) *Term {
	if !i.IsInt() {
		return nil
	}
	m, ok := initImage[a.Str]
	if !ok {
		return nil
	}
	return m[i.Int.String()]
}

// offsetDistinct: i and j are  X - c1  and  X - c2  (or X itself, c = 0) for the same X and different literals.
// notGlobalRef: references of cells that hold locals of an enclosing function (closure bindings).
var notGlobalRef = map[*Term]bool{}

func offsetDistinct(i, j *Term) bool {
	split := func(t *Term) (*Term, *big.Int) {
		if t.Op == "-" && len(t.Args) == 2 && t.Args[1].IsInt() {
			return t.Args[0], t.Args[1].Int
		}
		if t.Op == "+" && len(t.Args) == 2 && t.Args[1].IsInt() {
			return t.Args[0], new(big.Int).Neg(t.Args[1].Int)
		}
		return t, big.NewInt(0)
	}
	bi, ci := split(i)
	bj, cj := split(j)
	if bi == bj && !bi.IsInt() && ci.Cmp(cj) != 0 {
		return true
	}
	// two references handed out by allocation on one path - a negative literal, or a water mark minus a positive
	// offset - are different whenever they are written differently: marks only go down, and each offset below a
	// mark is handed out once
	isAlloc := func(t, b *Term, c *big.Int) bool {
		if t.IsInt() {
			return t.Int.Sign() < 0
		}
		return b.Op == "var" && strings.HasPrefix(b.Str, "lw!") && c.Sign() > 0
	}
	return i != j && isAlloc(i, bi, ci) && isAlloc(j, bj, cj)
}
