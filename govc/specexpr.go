package main

import (
	"os"
	"fmt"
	"go/ast"
	"go/constant"
	"go/token"
	"go/types"
	"math/big"
	"strconv"
	"strings"

	"golang.org/x/tools/go/ssa"
)

type SVal struct {
	T  *Term
	Ty types.Type
}

// ghostReads counts evaluations of ghost(...): ghost state has no concrete counterpart in a replay.
var ghostReads int

type SpecEnv struct {
	v       *Verifier
	st      *State
	pkg     *types.Package
	vars    map[string]SVal
	oldHeap map[string]*Term
	oldLW   *Term
	fr      *Frame // for locals (loop invariants)
	fr2     *Frame // the frame of an inlined callee whose loop the clauses were supplied for (names not found in fr)
	facts   []*Term // memory-safety facts about references read while evaluating
	depth   int
	parent  *SpecEnv // macros see the identifiers of the clause that uses them
	astArgs map[string]ast.Expr
	qdepth  int
}

func (e *SpecEnv) qdepthTotal() int {
	n := 0
	for x := e; x != nil; x = x.parent {
		n += x.qdepth
	}
	return n
}

func (e *SpecEnv) lookupVar(name string) (SVal, bool) {
	if v, ok := e.vars[name]; ok {
		return v, true
	}
	if x, ok := e.astArgs[name]; ok && e.parent != nil {
		e.parent.depth++
		r := e.parent.eval(x)
		e.parent.depth--
		e.facts = append(e.facts, e.parent.facts...)
		e.parent.facts = nil
		return r, true
	}
	if v, ok := e.local(name); ok {
		return v, true
	}
	if e.parent != nil {
		return e.parent.lookupVar(name)
	}
	return SVal{}, false
}

// refFact records that a reference read from the state is an allocated one.
func (e *SpecEnv) refFact(ref *Term) {
	if ref.IsLit() || ref.Op == "ite" {
		return
	}
	if preState(ref) {
		nonNegRef[ref] = true
		e.facts = append(e.facts, Ge(ref, IntLit(0)))
		return
	}
	e.facts = append(e.facts, Ge(ref, e.st.lw()))
}

func (e *SpecEnv) noteRefs(v SVal) {
	if v.Ty == nil {
		return
	}
	switch v.Ty.Underlying().(type) {
	case *types.Pointer, *types.Map:
		e.refFact(v.T)
	case *types.Slice:
		e.refFact(Sel(v.T, 0))
		e.facts = append(e.facts, Ge(Sel(v.T, 2), IntLit(0)), Ge(Sel(v.T, 1), IntLit(0)))
	}
}

func (e *SpecEnv) drain() {
	if e.depth != 0 {
		return
	}
	for _, f := range e.facts {
		if !f.open {
			e.st.assume(f)
		}
	}
	e.facts = nil
}

var bvCounter int

var (
	tyInt    = types.Typ[types.Int]
	tyBool   = types.Typ[types.Bool]
	tyString = types.Typ[types.String]
	tyReal   = types.Typ[types.Float64]
)

func (v *Verifier) specEnv(st *State, fr *Frame) *SpecEnv {
	c := v.contractFor(fr.fn)
	env := &SpecEnv{v: v, st: st, vars: map[string]SVal{}, fr: fr}
	if c != nil {
		env.pkg = c.Pkg.Types
	} else if fr.fn.Pkg != nil {
		env.pkg = fr.fn.Pkg.Pkg
	}
	for _, p := range fr.fn.Params {
		if t, ok := st.env[p]; ok {
			env.vars[p.Name()] = SVal{t, p.Type()}
		}
	}
	if v.entry != nil && len(st.frames) == 1 {
		env.oldHeap = v.entry.heap
		env.oldLW = v.entry.lw()
	}
	return env
}

// entryEnv evaluates over the top function's entry state (parameters, entry heap).
func (v *Verifier) entryEnv() *SpecEnv {
	fr := v.entry.frames[0]
	env := &SpecEnv{v: v, st: v.entry, vars: map[string]SVal{}, fr: fr}
	if v.topC != nil {
		env.pkg = v.topC.Pkg.Types
	}
	for _, p := range fr.fn.Params {
		env.vars[p.Name()] = SVal{v.entry.env[p], p.Type()}
	}
	return env
}

func (e *SpecEnv) fail(n ast.Node, format string, a ...any) {
	unsup("spec expression: "+format, a...)
}

func (e *SpecEnv) evalBool(x ast.Expr) *Term {
	r := e.eval(x)
	if r.T.Sort != SBool {
		e.fail(x, "expected Bool, got %s", r.T.Sort.Name)
	}
	return r.T
}

func (e *SpecEnv) eval(x ast.Expr) SVal {
	e.depth++
	r := e.eval1(x)
	e.depth--
	e.noteRefs(r)
	e.drain()
	return r
}

func sortType(s *Sort) types.Type {
	switch s {
	case SInt:
		return tyInt
	case SBool:
		return tyBool
	case SString:
		return tyString
	case SReal:
		return tyReal
	}
	return nil
}

func (e *SpecEnv) lookupPkg(name string) *types.Package {
	for _, p := range e.v.P.Prog.AllPackages() {
		if p.Pkg.Name() == name && inRepo(p.Pkg) {
			return p.Pkg
		}
	}
	for _, p := range e.v.P.Prog.AllPackages() {
		if p.Pkg.Name() == name {
			return p.Pkg
		}
	}
	return nil
}

func (e *SpecEnv) objVal(obj types.Object) SVal {
	switch o := obj.(type) {
	case *types.Const:
		return SVal{constValTerm(o.Val(), o.Type()), o.Type()}
	case *types.Var:
		// package-level variable
		sp := e.v.P.SSAPkgs[o.Pkg().Path()]
		if sp == nil {
			unsup("no SSA package for %s", o.Pkg().Path())
		}
		g, ok := sp.Members[o.Name()].(*ssa.Global)
		if !ok {
			unsup("%s is not a global", o.Name())
		}
		ref := e.v.globalRef(g)
		return SVal{e.st.load(ref, sortOf(o.Type())), o.Type()}
	case *types.Nil:
		return SVal{IntLit(0), nil}
	}
	unsup("spec: unsupported object %v", obj)
	return SVal{}
}

func constValTerm(c constant.Value, T types.Type) *Term {
	switch c.Kind() {
	case constant.Bool:
		return BoolLit(constant.BoolVal(c))
	case constant.String:
		return StrLit(constant.StringVal(c))
	case constant.Int:
		bi, _ := new(big.Int).SetString(c.ExactString(), 10)
		if T != nil && isFloat(T) {
			return RealLit(bi.String())
		}
		return IntBig(bi)
	case constant.Float:
		r, _ := new(big.Rat).SetString(c.ExactString())
		if r.IsInt() {
			return RealLit(r.Num().String())
		}
		return RealLit(r.Num().String() + "/" + r.Denom().String())
	}
	unsup("constant kind")
	return nil
}

func (e *SpecEnv) local(name string) (SVal, bool) {
	if name == "rangeindex" {
		// the position in the loop whose head is being looked at: that of the innermost frame
		f := e.fr
		if e.fr2 != nil {
			f = e.fr2
		}
		if f != nil && f.block != nil {
			for _, in := range f.block.Instrs {
				if p, ok := in.(*ssa.Phi); ok && p.Comment == "rangeindex" {
					if t, ok := e.st.env[p]; ok {
						return SVal{t, p.Type()}, true
					}
				}
			}
			// The loop was a range loop when its clauses were written (rangeindex: the hidden position, -1 before
			// the first element) and is a counted loop now: a counter c that starts at 0 and goes up by one per
			// round stands at rangeindex+1 when the loop head is reached.
			if c := countedLoopCounter(f.block); c != nil {
				if t, ok := e.st.env[c]; ok {
					return SVal{Sub(t, IntLit(1)), c.Type()}, true
				}
			}
		}
	}
	if v, ok := e.localAsWritten(name); ok {
		return v, true
	}
	// a variable the function declared under another name when the contract was written (names.go)
	var fns []*ssa.Function
	if e.fr != nil {
		fns = append(fns, e.fr.fn)
	}
	if e.fr2 != nil {
		for i := len(e.st.frames) - 1; i >= 1; i-- {
			fns = append(fns, e.st.frames[i].fn)
		}
	}
	for _, fn := range fns {
		if nn := renamesOf(e.v.P, fn)[name]; nn != "" {
			if v, ok := e.vars[nn]; ok {
				return v, true
			}
			if v, ok := e.localAsWritten(nn); ok {
				return v, true
			}
		}
	}
	return SVal{}, false
}

func (e *SpecEnv) localAsWritten(name string) (SVal, bool) {
	if v, ok := e.local1(name); ok {
		return v, true
	}
	if e.fr2 != nil {
		// names of callees inlined below the function that supplied the clause, innermost first
		saved, saved2 := e.fr, e.fr2
		defer func() { e.fr, e.fr2 = saved, saved2 }()
		e.fr2 = nil
		for i := len(e.st.frames) - 1; i >= 1; i-- {
			e.fr = e.st.frames[i]
			if v, ok := e.local1(name); ok {
				return v, true
			}
		}
	}
	return SVal{}, false
}

func (e *SpecEnv) local1(name string) (SVal, bool) {
	if e.fr == nil {
		return SVal{}, false
	}
	fn := e.fr.fn
	// phis of the current block first, then any phi, then allocs
	dn := debugNames(fn)
	for _, in := range e.fr.block.Instrs {
		if p, ok := in.(*ssa.Phi); ok && (p.Comment == name || dn[p] == name) {
			if t, ok := e.st.env[p]; ok {
				return SVal{t, p.Type()}, true
			}
		}
	}
	for _, b := range fn.Blocks {
		for _, in := range b.Instrs {
			switch x := in.(type) {
			case *ssa.Alloc:
				if x.Comment == name {
					if ref, ok := e.st.env[x]; ok {
						T := elemType(x.Type())
						return SVal{e.st.load(ref, sortOf(T)), T}, true
					}
				}
			}
		}
	}
	// the value the variable was last given on this path (assignment, merge point, loop cut)
	if nv, ok := e.fr.named[name]; ok && os.Getenv("GOVC_NO_NAMED") == "" {
		return SVal{nv.t, nv.ty}, true
	}
	for _, b := range fn.Blocks {
		for _, in := range b.Instrs {
			if p, ok := in.(*ssa.Phi); ok && p.Comment == name {
				if t, ok := e.st.env[p]; ok {
					return SVal{t, p.Type()}, true
				}
			}
		}
	}
	if nv, ok := e.fr.named[name]; ok {
		return SVal{nv.t, nv.ty}, true
	}
	// free variables of closures
	for i, fv := range fn.FreeVars {
		if fv.Name() == name && i < len(e.fr.bindings) {
			T := elemType(fv.Type())
			return SVal{e.st.load(e.fr.bindings[i], sortOf(T)), T}, true
		}
	}
	// a variable whose only references lie ahead on this path (x := map literal): the value those references name
	for _, b := range fn.Blocks {
		for _, in := range b.Instrs {
			if d, ok := in.(*ssa.DebugRef); ok && !d.IsAddr {
				if obj, _ := d.Object().(*types.Var); obj != nil && !obj.IsField() && obj.Name() == name {
					if t, ok := e.st.env[d.X]; ok {
						return SVal{t, d.X.Type()}, true
					}
				}
			}
		}
	}
	// named values by SSA register name ("t12")
	for _, b := range fn.Blocks {
		for _, in := range b.Instrs {
			if val, ok := in.(ssa.Value); ok && val.Name() == name {
				if t, ok := e.st.env[val]; ok {
					return SVal{t, val.Type()}, true
				}
			}
		}
	}
	return SVal{}, false
}

func (e *SpecEnv) deref(x SVal) SVal {
	if x.Ty == nil {
		return x
	}
	if p, ok := x.Ty.Underlying().(*types.Pointer); ok {
		return SVal{e.st.load(x.T, sortOf(p.Elem())), p.Elem()}
	}
	return x
}

func (e *SpecEnv) field(x SVal, name string, n ast.Node) SVal {
	x = e.deref(x)
	if x.Ty == nil {
		// raw datatype value
		return SVal{SelName(x.T, name), nil}
	}
	st, ok := x.Ty.Underlying().(*types.Struct)
	if !ok {
		if x.T.Sort == SSlice || x.T.Sort == SIface {
			return SVal{SelName(x.T, name), tyInt}
		}
		e.fail(n, "field %s of non-struct %s", name, x.Ty)
	}
	for i := 0; i < st.NumFields(); i++ {
		if st.Field(i).Name() == name {
			return SVal{Sel(x.T, i), st.Field(i).Type()}
		}
	}
	for i := 0; i < st.NumFields(); i++ {
		if st.Field(i).Embedded() {
			if _, ok := st.Field(i).Type().Underlying().(*types.Struct); ok {
				inner := SVal{Sel(x.T, i), st.Field(i).Type()}
				if hasField(st.Field(i).Type(), name) {
					return e.field(inner, name, n)
				}
			}
		}
	}
	if now := fieldRenames(x.Ty)[name]; now != "" {
		// a field that had this name when the contract was written (names.go)
		return e.field(x, now, n)
	}
	e.fail(n, "no field %s in %s", name, x.Ty)
	return SVal{}
}

func hasField(T types.Type, name string) bool {
	st, ok := T.Underlying().(*types.Struct)
	if !ok {
		return false
	}
	for i := 0; i < st.NumFields(); i++ {
		if st.Field(i).Name() == name {
			return true
		}
		if st.Field(i).Embedded() && hasField(st.Field(i).Type(), name) {
			return true
		}
	}
	if now := fieldRenames(T)[name]; now != "" {
		return hasField(T, now)
	}
	return false
}

func (e *SpecEnv) resolveType(x ast.Expr) types.Type {
	switch t := x.(type) {
	case *ast.Ident:
		if o := types.Universe.Lookup(t.Name); o != nil {
			if tn, ok := o.(*types.TypeName); ok {
				return tn.Type()
			}
		}
		if e.pkg != nil {
			if o := e.pkg.Scope().Lookup(t.Name); o != nil {
				if tn, ok := o.(*types.TypeName); ok {
					return tn.Type()
				}
			}
		}
	case *ast.SelectorExpr:
		if id, ok := t.X.(*ast.Ident); ok {
			if p := e.lookupPkg(id.Name); p != nil {
				if o := p.Scope().Lookup(t.Sel.Name); o != nil {
					if tn, ok := o.(*types.TypeName); ok {
						return tn.Type()
					}
				}
			}
		}
	case *ast.StarExpr:
		if T := e.resolveType(t.X); T != nil {
			return types.NewPointer(T)
		}
	case *ast.ArrayType:
		if t.Len == nil {
			if T := e.resolveType(t.Elt); T != nil {
				return types.NewSlice(T)
			}
		}
	case *ast.MapType:
		K, V := e.resolveType(t.Key), e.resolveType(t.Value)
		if K != nil && V != nil {
			return types.NewMap(K, V)
		}
	}
	return nil
}

func (e *SpecEnv) eval1(x ast.Expr) SVal {
	switch n := x.(type) {
	case *ast.ParenExpr:
		return e.eval(n.X)
	case *ast.BasicLit:
		switch n.Kind {
		case token.INT:
			bi, _ := new(big.Int).SetString(n.Value, 0)
			return SVal{IntBig(bi), tyInt}
		case token.STRING:
			s, _ := strconv.Unquote(n.Value)
			return SVal{StrLit(s), tyString}
		case token.CHAR:
			s, _ := strconv.Unquote(n.Value)
			return SVal{IntLit(int64([]rune(s)[0])), tyInt}
		case token.FLOAT:
			r, _ := new(big.Rat).SetString(n.Value)
			if r.IsInt() {
				return SVal{RealLit(r.Num().String()), tyReal}
			}
			return SVal{RealLit(r.Num().String() + "/" + r.Denom().String()), tyReal}
		}
	case *ast.Ident:
		switch n.Name {
		case "true":
			return SVal{TTrue, tyBool}
		case "false":
			return SVal{TFalse, tyBool}
		case "nil":
			return SVal{IntLit(0), nil}
		}
		if v, ok := e.lookupVar(n.Name); ok {
			return v
		}
		if e.pkg != nil {
			if o := e.pkg.Scope().Lookup(n.Name); o != nil {
				return e.objVal(o)
			}
		}
		e.fail(n, "unknown identifier %s", n.Name)
	case *ast.SelectorExpr:
		if id, ok := n.X.(*ast.Ident); ok {
			if _, isVar := e.lookupVar(id.Name); !isVar {
				{
					if p := e.lookupPkg(id.Name); p != nil {
						o := p.Scope().Lookup(n.Sel.Name)
						if o == nil {
							e.fail(n, "unknown %s.%s", id.Name, n.Sel.Name)
						}
						return e.objVal(o)
					}
				}
			}
		}
		return e.field(e.eval(n.X), n.Sel.Name, n)
	case *ast.StarExpr:
		return e.deref(e.eval(n.X))
	case *ast.UnaryExpr:
		a := e.eval(n.X)
		switch n.Op {
		case token.NOT:
			return SVal{Not(a.T), tyBool}
		case token.SUB:
			if a.T.Sort == SReal {
				return SVal{mk("-", SReal, a.T), a.Ty}
			}
			return SVal{Neg(a.T), a.Ty}
		}
	case *ast.BinaryExpr:
		return e.binary(n)
	case *ast.IndexExpr:
		a := e.deref(e.eval(n.X))
		i := e.eval(n.Index)
		return e.index(a, i, n)
	case *ast.CallExpr:
		return e.callExpr(n)
	case *ast.CompositeLit:
		T := e.resolveType(n.Type)
		if T == nil {
			e.fail(n, "unknown composite type")
		}
		st, ok := T.Underlying().(*types.Struct)
		if !ok {
			e.fail(n, "composite literal of non-struct")
		}
		s := sortOf(T)
		args := make([]*Term, st.NumFields())
		for i := range args {
			args[i] = zeroTerm(s.Fields[i].Sort)
		}
		for k, el := range n.Elts {
			if kv, ok := el.(*ast.KeyValueExpr); ok {
				name := kv.Key.(*ast.Ident).Name
				found := false
				for i := 0; i < st.NumFields(); i++ {
					if st.Field(i).Name() == name {
						args[i] = e.coerce(e.eval(kv.Value).T, s.Fields[i].Sort)
						found = true
					}
				}
				if !found {
					e.fail(n, "no field %s", name)
				}
			} else {
				args[k] = e.coerce(e.eval(el).T, s.Fields[k].Sort)
			}
		}
		return SVal{Mk(s, args...), T}
	}
	e.fail(x, "unsupported expression %T", x)
	return SVal{}
}

func (e *SpecEnv) coerce(t *Term, s *Sort) *Term {
	if t.Sort == s {
		return t
	}
	if t.Sort == SInt && s == SReal {
		if t.IsInt() {
			return RealLit(t.Int.String())
		}
		return mk("to_real", SReal, t)
	}
	if t.IsInt() && t.Int.Sign() == 0 {
		return zeroTerm(s) // nil
	}
	unsup("spec: cannot use %s as %s", t.Sort.Name, s.Name)
	return nil
}

func (e *SpecEnv) index(a, i SVal, n ast.Node) SVal {
	if a.Ty != nil {
		switch u := a.Ty.Underlying().(type) {
		case *types.Slice:
			es := sortOf(u.Elem())
			if !i.T.open {
				e.st.noteIndex(i.T)
			}
			arr := Select(e.st.getHeap(ArraySort(SInt, es)), Sel(a.T, 0))
			return SVal{Select(arr, Add(Sel(a.T, 1), i.T)), u.Elem()}
		case *types.Array:
			return SVal{Select(a.T, i.T), u.Elem()}
		case *types.Map:
			ms := mapSortOf(a.Ty)
			o := Select(e.st.getHeap(ms), a.T)
			val := Select(Sel(o, 1), i.T)
			if !zeroBased(Sel(o, 1)) {
				val = Ite(Select(Sel(o, 0), i.T), val, zeroTerm(val.Sort))
			}
			return SVal{val, u.Elem()}
		}
	}
	if a.T.Sort.Kind == KArray {
		return SVal{Select(a.T, i.T), sortType(a.T.Sort.Elem)}
	}
	e.fail(n, "cannot index %s", a.T.Sort.Name)
	return SVal{}
}

func (e *SpecEnv) binary(n *ast.BinaryExpr) SVal {
	if n.Op == token.LAND {
		return SVal{And(e.evalBool(n.X), e.evalBool(n.Y)), tyBool}
	}
	if n.Op == token.LOR {
		return SVal{Or(e.evalBool(n.X), e.evalBool(n.Y)), tyBool}
	}
	a, b := e.eval(n.X), e.eval(n.Y)
	at, bt := a.T, b.T
	// nil / numeric coercions
	if at.Sort != bt.Sort {
		if at.IsInt() && at.Int.Sign() == 0 && a.Ty == nil {
			at = zeroTerm(bt.Sort)
		} else if bt.IsInt() && bt.Int.Sign() == 0 && b.Ty == nil {
			bt = zeroTerm(at.Sort)
		} else if at.Sort == SInt && bt.Sort == SReal {
			at = e.coerce(at, SReal)
		} else if at.Sort == SReal && bt.Sort == SInt {
			bt = e.coerce(bt, SReal)
		} else {
			e.fail(n, "operands of %s have sorts %s and %s", n.Op, at.Sort.Name, bt.Sort.Name)
		}
	}
	ty := a.Ty
	if ty == nil {
		ty = b.Ty
	}
	switch n.Op {
	case token.EQL:
		return SVal{Eq(at, bt), tyBool}
	case token.NEQ:
		return SVal{Neq(at, bt), tyBool}
	}
	if at.Sort == SReal {
		switch n.Op {
		case token.LSS:
			return SVal{mk("<", SBool, at, bt), tyBool}
		case token.LEQ:
			return SVal{mk("<=", SBool, at, bt), tyBool}
		case token.GTR:
			return SVal{mk("<", SBool, bt, at), tyBool}
		case token.GEQ:
			return SVal{mk("<=", SBool, bt, at), tyBool}
		case token.ADD:
			return SVal{mk("+", SReal, at, bt), ty}
		case token.SUB:
			return SVal{mk("-", SReal, at, bt), ty}
		case token.MUL:
			return SVal{realMul(at, bt), ty}
		case token.QUO:
			return SVal{realDiv(at, bt), ty}
		}
	}
	if at.Sort == SString && n.Op == token.ADD {
		return SVal{strConcat(at, bt), tyString}
	}
	if at.Sort == SString {
		// byte-wise order of strings (Go's), which for the ASCII strings compared in crd is str.< / str.<=
		switch n.Op {
		case token.LSS:
			return SVal{mk("str.<", SBool, at, bt), tyBool}
		case token.LEQ:
			return SVal{mk("str.<=", SBool, at, bt), tyBool}
		case token.GTR:
			return SVal{mk("str.<", SBool, bt, at), tyBool}
		case token.GEQ:
			return SVal{mk("str.<=", SBool, bt, at), tyBool}
		}
	}
	switch n.Op {
	case token.LSS:
		return SVal{Lt(at, bt), tyBool}
	case token.LEQ:
		return SVal{Le(at, bt), tyBool}
	case token.GTR:
		return SVal{Gt(at, bt), tyBool}
	case token.GEQ:
		return SVal{Ge(at, bt), tyBool}
	case token.ADD:
		return SVal{Add(at, bt), ty}
	case token.SUB:
		return SVal{Sub(at, bt), ty}
	case token.MUL:
		return SVal{Mul(at, bt), ty}
	case token.QUO:
		return SVal{GoDiv(at, bt), ty}
	case token.REM:
		return SVal{GoRem(at, bt), ty}
	}
	e.fail(n, "operator %s", n.Op)
	return SVal{}
}

func (e *SpecEnv) withHeap(h map[string]*Term, f func() SVal) SVal {
	if h == nil {
		unsup("old() used where no pre-state exists")
	}
	saved := e.st.heap
	tmp := map[string]*Term{}
	for k, v := range h {
		tmp[k] = v
	}
	e.st.heap = tmp
	defer func() { e.st.heap = saved }()
	return f()
}

func (e *SpecEnv) callExpr(n *ast.CallExpr) SVal {
	if id, ok := n.Fun.(*ast.Ident); ok {
		switch id.Name {
		case "implies":
			return SVal{Implies(e.evalBool(n.Args[0]), e.evalBool(n.Args[1])), tyBool}
		case "ite":
			c := e.evalBool(n.Args[0])
			a, b := e.eval(n.Args[1]), e.eval(n.Args[2])
			return SVal{Ite(c, a.T, e.coerce(b.T, a.T.Sort)), a.Ty}
		case "old":
			return e.withHeap(e.oldHeap, func() SVal { return e.eval(n.Args[0]) })
		case "len":
			a := e.deref(e.eval(n.Args[0]))
			if a.T.Sort == SSlice {
				return SVal{Sel(a.T, 2), tyInt}
			}
			if a.T.Sort == SString {
				if a.T.Op == "str" {
					return SVal{IntLit(int64(len(a.T.Str))), tyInt}
				}
				return SVal{App("str_bytelen", SInt, a.T), tyInt}
			}
			if a.Ty != nil {
				if _, ok := a.Ty.Underlying().(*types.Map); ok {
					ms := mapSortOf(a.Ty)
					return SVal{Sel(Select(e.st.getHeap(ms), a.T), 2), tyInt}
				}
				if at, ok := a.Ty.Underlying().(*types.Array); ok {
					return SVal{IntLit(at.Len()), tyInt}
				}
			}
			e.fail(n, "len of %s", a.T.Sort.Name)
		case "forall", "exists":
			name := n.Args[0].(*ast.Ident).Name
			bvCounter++
			bvSort, bvType := SInt, types.Type(tyInt)
			if len(n.Args) == 3 {
				// forall(k, T, body): k ranges over all values of Go type T
				T := e.resolveType(n.Args[1])
				if T == nil {
					e.fail(n, "forall: unknown type")
				}
				bvSort, bvType = sortOf(T), T
			}
			// bound variables are named by nesting depth, so that evaluating the same clause
			// twice yields the same term
			qd := e.qdepthTotal()
			e.qdepth++
			defer func() { e.qdepth-- }()
			bv := BVar(name+"$q"+strconv.Itoa(qd), bvSort)
			saved, had := e.vars[name]
			e.vars[name] = SVal{bv, bvType}
			var r *Term
			if len(n.Args) == 4 {
				lo, hi := e.eval(n.Args[1]).T, e.eval(n.Args[2]).T
				if lo.IsInt() && hi.IsInt() && hi.Int64()-lo.Int64() <= 32 {
					// small literal range: expand
					var parts []*Term
					for k := lo.Int64(); k < hi.Int64(); k++ {
						e.vars[name] = SVal{IntLit(k), tyInt}
						parts = append(parts, e.evalBool(n.Args[3]))
					}
					if had {
						e.vars[name] = saved
					} else {
						delete(e.vars, name)
					}
					if id.Name == "forall" {
						return SVal{And(parts...), tyBool}
					}
					return SVal{Or(parts...), tyBool}
				}
				nf := len(e.facts)
				body := e.evalBool(n.Args[3])
				rng := And(Le(lo, bv), Lt(bv, hi))
				for k := nf; k < len(e.facts); k++ {
					if hasFreeBVar(e.facts[k], nil) && mentions(e.facts[k], bv) {
						e.facts[k] = Forall([]*Term{bv}, Implies(rng, e.facts[k]))
					}
				}
				if id.Name == "forall" {
					r = Forall([]*Term{bv}, Implies(rng, body))
				} else {
					r = Exists([]*Term{bv}, And(rng, body))
				}
			} else {
				body := e.evalBool(n.Args[len(n.Args)-1])
				inv := And(typeInv(bv, bvType, 0)...)
				if id.Name == "forall" {
					r = Forall([]*Term{bv}, Implies(inv, body))
				} else {
					r = Exists([]*Term{bv}, And(inv, body))
				}
			}
			if had {
				e.vars[name] = saved
			} else {
				delete(e.vars, name)
			}
			return SVal{r, tyBool}
		case "fresh":
			a := e.eval(n.Args[0])
			if e.oldLW == nil {
				// where a clause has no pre-state of its own (a callee's precondition, an invariant supplied for an
				// inlined loop) "fresh" is relative to the entry of the function under verification
				if e.v != nil && e.v.entry != nil {
					return SVal{Lt(a.T, e.v.entry.lw()), tyBool}
				}
				unsup("fresh() without pre-state")
			}
			return SVal{Lt(a.T, e.oldLW), tyBool}
		case "dom":
			// dom(m, k): key k is present in map m
			a := e.deref(e.eval(n.Args[0]))
			k := e.eval(n.Args[1])
			ms := mapSortOf(a.Ty)
			return SVal{Select(Sel(Select(e.st.getHeap(ms), a.T), 0), k.T), tyBool}
		case "is", "as":
			x := e.eval(n.Args[0])
			T := e.resolveType(n.Args[1])
			if T == nil || x.T.Sort != SIface {
				e.fail(n, "is/as need an interface value and a type")
			}
			if id.Name == "is" {
				return SVal{Eq(Sel(x.T, 0), IntLit(typeTag(T))), tyBool}
			}
			return SVal{unbox(e.st, x.T, T), T}
		case "heap":
			// heap(T): the current heap of cells of Go type T, as an array from references
			T := e.resolveType(n.Args[0])
			if T == nil {
				e.fail(n, "heap: unknown type")
			}
			var cell *Sort
			if _, isMap := T.Underlying().(*types.Map); isMap {
				cell = mapSortOf(T)
			} else if sl, isSlice := T.Underlying().(*types.Slice); isSlice {
				// heap([]T): the arrays that slices of T live in
				cell = ArraySort(SInt, sortOf(sl.Elem()))
			} else {
				cell = sortOf(T)
			}
			return SVal{e.st.getHeap(cell), nil}
		case "backing":
			// backing(s): the array holding slice s's elements (element i is at offset(s)+i)
			a := e.deref(e.eval(n.Args[0]))
			sl, ok := a.Ty.Underlying().(*types.Slice)
			if !ok {
				e.fail(n, "backing of non-slice")
			}
			return SVal{Select(e.st.getHeap(ArraySort(SInt, sortOf(sl.Elem()))), Sel(a.T, 0)), nil}
		case "offset":
			a := e.deref(e.eval(n.Args[0]))
			return SVal{Sel(a.T, 1), tyInt}
		case "upd":
			// upd(record, "Field", value): functional record update
			r := e.eval(n.Args[0])
			lit, ok := n.Args[1].(*ast.BasicLit)
			if !ok || r.T.Sort.Kind != KDT {
				e.fail(n, "upd(record, \"Field\", value)")
			}
			fname, _ := strconv.Unquote(lit.Value)
			x := e.eval(n.Args[2])
			for i, f := range r.T.Sort.Fields {
				if f.Go == fname {
					return SVal{Upd(r.T, i, e.coerce(x.T, f.Sort)), r.Ty}
				}
			}
			e.fail(n, "no field %s", fname)
		case "store":
			a, i, x := e.eval(n.Args[0]), e.eval(n.Args[1]), e.eval(n.Args[2])
			return SVal{Store(a.T, i.T, e.coerce(x.T, a.T.Sort.Elem)), a.Ty}
		case "ghost":
			// ghost(T, x): the ghost record of type T attached to object x (pointer or interface value)
			T := e.resolveType(n.Args[0])
			if T == nil {
				e.fail(n, "ghost: unknown type")
			}
			x := e.eval(n.Args[1])
			ref := x.T
			if ref.Sort == SIface {
				ref = Sel(ref, 1)
			}
			ghostReads++
			return SVal{Select(e.st.getHeap(sortOf(T)), ref), T}
		case "captured":
			// captured("name"): the value of a captured variable whose name is not a Go identifier (jump$1)
			lit, ok := n.Args[0].(*ast.BasicLit)
			if !ok || e.fr == nil {
				e.fail(n, "captured(\"name\")")
			}
			name, _ := strconv.Unquote(lit.Value)
			if strings.HasPrefix(name, "#") {
				// captured("#3"): by position, for the holders the compiler makes for a function's unnamed results
				if k, err := strconv.Atoi(name[1:]); err == nil && k >= 0 && k < len(e.fr.fn.FreeVars) && k < len(e.fr.bindings) {
					T := elemType(e.fr.fn.FreeVars[k].Type())
					return SVal{e.st.load(e.fr.bindings[k], sortOf(T)), T}
				}
			}
			for i, fv := range e.fr.fn.FreeVars {
				if fv.Name() == name && i < len(e.fr.bindings) {
					T := elemType(fv.Type())
					return SVal{e.st.load(e.fr.bindings[i], sortOf(T)), T}
				}
			}
			// ... or a local of this function that closures capture (the variable itself, by its compiler-given name)
			if a := findAlloc(e.fr.fn, name); a != nil {
				if ref, ok := e.st.env[a]; ok {
					T := elemType(a.Type())
					return SVal{e.st.load(ref, sortOf(T)), T}
				}
			}
			if e.fr2 != nil {
				for i := len(e.st.frames) - 1; i >= 1; i-- {
					if a := findAlloc(e.st.frames[i].fn, name); a != nil {
						if ref, ok := e.st.env[a]; ok {
							T := elemType(a.Type())
							return SVal{e.st.load(ref, sortOf(T)), T}
						}
					}
				}
			}
			e.fail(n, "no captured variable %s", name)
		case "flagstr", "flagint", "flagbool":
			// the value of a command-line flag (the fixed unknown value the flag getters return for that name)
			lit, ok := n.Args[0].(*ast.BasicLit)
			if !ok {
				e.fail(n, "%s(\"name\")", id.Name)
			}
			name, _ := strconv.Unquote(lit.Value)
			switch id.Name {
			case "flagstr":
				return SVal{App("flag$"+name, SString), tyString}
			case "flagint":
				return SVal{App("flag$"+name, SInt), tyInt}
			}
			return SVal{App("flag$"+name, SBool), tyBool}
		case "errIs":
			// errIs(e, t): errors.Is(e, t)
			a, b := e.eval(n.Args[0]), e.eval(n.Args[1])
			return SVal{errorsIs(a.T, b.T), tyBool}
		case "call":
			// call(f, a...): the result of applying function value f. It is an uninterpreted application; when f is a
			// known function value (a closure, a bound method, a function) whose function has a contract, that
			// contract - stated for all arguments - is added to the path's facts.
			f := e.eval(n.Args[0])
			sig, ok := f.Ty.Underlying().(*types.Signature)
			if !ok || sig.Results().Len() != 1 {
				e.fail(n, "call: a function value with one result is needed")
			}
			var args []*Term
			for _, a := range n.Args[1:] {
				args = append(args, e.eval(a).T)
			}
			t := fvApp(f.T, args, sig)
			if f.T.IsInt() {
				e.v.linkFuncValue(e.st, f.T.Int64(), sig)
			}
			return SVal{t, sig.Results().At(0).Type()}
		case "rangeseen", "rangekey", "rangecount", "rangedom":
			// the innermost running iteration over a map of unknown contents: rangeseen(k) - key k has been
			// handed out (the current one included); rangekey() - the key of the current iteration
			var it *iterInfo
			for rg, x := range e.st.iters {
				own := e.fr != nil && rg.Parent() == e.fr.fn
				if !own && e.fr != nil && len(e.st.frames) > 1 && e.fr == e.st.frames[0] {
					own = true // clauses the function under verification supplies for a loop of an inlined callee
				}
				if x.visited != nil && own && (it == nil || x.seq > it.seq) {
					it = x
				}
			}
			if it == nil {
				e.fail(n, "%s: no iteration over a map of unknown contents is running", id.Name)
			}
			if id.Name == "rangecount" {
				return SVal{it.count, tyInt}
			}
			if id.Name == "rangedom" {
				// rangedom(k): k is a key of the map being walked
				a := e.eval(n.Args[0])
				mo := Select(e.st.getHeap(it.msort), it.mapRef)
				return SVal{Select(Sel(mo, 0), a.T), tyBool}
			}
			if id.Name == "rangekey" {
				if it.curKey == nil {
					e.fail(n, "rangekey: no current key here")
				}
				return SVal{it.curKey, nil}
			}
			a := e.eval(n.Args[0])
			return SVal{Select(it.visited, a.T), tyBool}
		case "valid":
			// valid(x): x's Go type invariants (unsigned ranges etc.)
			a := e.eval(n.Args[0])
			return SVal{And(typeInv(a.T, a.Ty, 0)...), tyBool}
		}
		if e.pkg != nil {
			if m, ok := e.v.P.Macros[e.pkg.Name()+"."+id.Name]; ok {
				return e.macro(m, n)
			}
		}
		// conversion?
		if T := e.resolveType(n.Fun); T != nil && len(n.Args) == 1 {
			a := e.eval(n.Args[0])
			s := sortOf(T)
			if a.T.Sort == SInt && s == SInt {
				return SVal{wrapInt(a.T, T), T}
			}
			return SVal{e.coerce(a.T, s), T}
		}
		e.fail(n, "unknown function %s", id.Name)
	}
	if sel, ok := n.Fun.(*ast.SelectorExpr); ok {
		if id, ok := sel.X.(*ast.Ident); ok && id.Name == "spec" {
			sf, ok := specFuncs[sel.Sel.Name]
			if !ok {
				e.fail(n, "unknown spec function %s", sel.Sel.Name)
			}
			if len(sf.Args) != len(n.Args) {
				e.fail(n, "spec.%s takes %d arguments", sel.Sel.Name, len(sf.Args))
			}
			args := make([]*Term, len(n.Args))
			for i, a := range n.Args {
				args[i] = e.coerce(e.eval(a).T, sf.Args[i])
			}
			return SVal{App(sel.Sel.Name, sf.Ret, args...), sortType(sf.Ret)}
		}
		if id, ok := sel.X.(*ast.Ident); ok {
			if m, ok := e.v.P.Macros[id.Name+"."+sel.Sel.Name]; ok {
				return e.macro(m, n)
			}
		}
		if id, ok := sel.X.(*ast.Ident); ok && id.Name == "errors" && sel.Sel.Name == "Is" {
			a, b := e.eval(n.Args[0]), e.eval(n.Args[1])
			return SVal{errorsIs(a.T, b.T), tyBool}
		}
		if T := e.resolveType(n.Fun); T != nil && len(n.Args) == 1 {
			a := e.eval(n.Args[0])
			s := sortOf(T)
			if a.T.Sort == SInt && s == SInt {
				return SVal{wrapInt(a.T, T), T}
			}
			return SVal{e.coerce(a.T, s), T}
		}
	}
	e.fail(n, "unsupported call %s", exprString(n.Fun))
	return SVal{}
}

func (e *SpecEnv) macro(m *Macro, n *ast.CallExpr) SVal {
	if len(n.Args) != len(m.Params) {
		e.fail(n, "macro arity")
	}
	// call by name: a parameter stands for the argument expression, evaluated in the
	// caller's scope and in whatever state (current or old) the use occurs in
	sub := &SpecEnv{v: e.v, st: e.st, pkg: m.Pkg.Types, vars: map[string]SVal{}, oldHeap: e.oldHeap, oldLW: e.oldLW, depth: 1, parent: e, astArgs: map[string]ast.Expr{}}
	for i, p := range m.Params {
		sub.astArgs[p] = n.Args[i]
	}
	r := sub.eval(m.Body.Expr)
	e.facts = append(e.facts, sub.facts...)
	return r
}

func exprString(x ast.Expr) string {
	var b strings.Builder
	fmt.Fprintf(&b, "%T", x)
	if s, ok := x.(*ast.SelectorExpr); ok {
		if id, ok := s.X.(*ast.Ident); ok {
			return id.Name + "." + s.Sel.Name
		}
	}
	return b.String()
}

// ---- spec function table (parsed from /verif/spec/*.smt2) ----

type specFunc struct {
	Args []*Sort
	Ret  *Sort
}

var specFuncs = map[string]specFunc{}

func sortByName(n string) *Sort {
	switch n {
	case "Int":
		return SInt
	case "Bool":
		return SBool
	case "Real":
		return SReal
	case "String":
		return SString
	}
	if s, ok := dtSorts[n]; ok {
		return s
	}
	return nil
}

// parseSpecSigs extracts define-fun / define-fun-rec / declare-fun signatures.
func parseSpecSigs(text string) {
	toks := tokenizeSExp(text)
	i := 0
	for i < len(toks) {
		if toks[i] != "(" {
			i++
			continue
		}
		form, next := parseSX(toks, i)
		i = next
		if len(form.list) < 4 {
			continue
		}
		kind := form.list[0].atom
		if kind != "define-fun" && kind != "define-fun-rec" && kind != "declare-fun" {
			continue
		}
		name := form.list[1].atom
		var args []*Sort
		ok := true
		for _, p := range form.list[2].list {
			var so *Sort
			if kind == "declare-fun" {
				so = sortFromSX(p)
			} else if len(p.list) == 2 {
				so = sortFromSX(p.list[1])
			}
			if so == nil {
				ok = false
			}
			args = append(args, so)
		}
		ret := sortFromSX(form.list[3])
		if ok && ret != nil {
			specFuncs[name] = specFunc{Args: args, Ret: ret}
		}
		definedFuncs[name] = true
	}
}

func sortFromSX(s *sx) *Sort {
	if s.list == nil {
		return sortByName(s.atom)
	}
	if len(s.list) == 3 && s.list[0].atom == "Array" {
		k, e := sortFromSX(s.list[1]), sortFromSX(s.list[2])
		if k != nil && e != nil {
			return ArraySort(k, e)
		}
	}
	return nil
}

func tokenizeSExp(s string) []string {
	var out []string
	i := 0
	for i < len(s) {
		c := s[i]
		switch {
		case c == ';':
			for i < len(s) && s[i] != '\n' {
				i++
			}
		case c == '(' || c == ')':
			out = append(out, string(c))
			i++
		case c == ' ' || c == '\n' || c == '\t' || c == '\r':
			i++
		case c == '"':
			j := i + 1
			for j < len(s) && s[j] != '"' {
				j++
			}
			out = append(out, s[i:j+1])
			i = j + 1
		default:
			j := i
			for j < len(s) && !strings.ContainsRune(" \n\t\r()", rune(s[j])) {
				j++
			}
			out = append(out, s[i:j])
			i = j
		}
	}
	return out
}

var debugNameCache = map[*ssa.Function]map[ssa.Value]string{}

// debugNames maps SSA values to the source variable they are bound to.
func debugNames(fn *ssa.Function) map[ssa.Value]string {
	if m, ok := debugNameCache[fn]; ok {
		return m
	}
	m := map[ssa.Value]string{}
	for _, b := range fn.Blocks {
		for _, in := range b.Instrs {
			if d, ok := in.(*ssa.DebugRef); ok && !d.IsAddr {
				if obj, _ := d.Object().(*types.Var); obj != nil && !obj.IsField() {
					if _, dup := m[d.X]; !dup {
						m[d.X] = obj.Name()
					}
				}
			}
		}
	}
	debugNameCache[fn] = m
	return m
}

func mentions(t, v *Term) bool {
	if t == v {
		return true
	}
	for _, a := range t.Args {
		if mentions(a, v) {
			return true
		}
	}
	return false
}

// fvApp: the uninterpreted application of a function value.
func fvApp(f *Term, args []*Term, sig *types.Signature) *Term {
	name := "fv"
	for i := 0; i < sig.Params().Len(); i++ {
		name += "$" + sortOf(sig.Params().At(i).Type()).Name
	}
	ret := sortOf(sig.Results().At(0).Type())
	name += "$$" + ret.Name
	return App(sanitize(name), ret, append([]*Term{f}, args...)...)
}

// funcValueContract resolves a function value to the function whose contract describes it and the values of the
// contract's leading parameters that the value has already fixed (the receiver of a bound method).
func (v *Verifier) funcValueContract(id int64) (*Contract, *ssa.Function, []*Term) {
	ci := closures[id]
	if ci == nil {
		return nil, nil, nil
	}
	fn := ci.fn
	if strings.HasPrefix(fn.Synthetic, "bound method wrapper") && len(ci.bindings) == 1 {
		if obj, ok := fn.Object().(*types.Func); ok {
			if m := v.P.Prog.FuncValue(obj); m != nil {
				if c := v.contractFor(m); c != nil {
					return c, m, ci.bindings
				}
			}
		}
		return nil, nil, nil
	}
	if len(ci.bindings) == 0 {
		if c := v.contractFor(fn); c != nil {
			return c, fn, nil
		}
	}
	return nil, fn, nil
}

// closureFacts evaluates the contract of function value id at the given arguments, its result being res:
// (requires, ensures). ok is false when the value has no contract to speak of.
func (v *Verifier) closureFacts(st *State, id int64, args []*Term, res *Term) (pre, post *Term, ok bool) {
	c, fn, fixed := v.funcValueContract(id)
	if c == nil {
		return nil, nil, false
	}
	env := &SpecEnv{v: v, st: st, pkg: c.Pkg.Types, vars: map[string]SVal{}}
	all := append(append([]*Term{}, fixed...), args...)
	if len(all) != len(fn.Params) {
		return nil, nil, false
	}
	for i, p := range fn.Params {
		env.vars[p.Name()] = SVal{all[i], p.Type()}
	}
	if len(c.Results) == 1 {
		env.vars[c.Results[0]] = SVal{res, fn.Signature.Results().At(0).Type()}
	}
	var pres, posts []*Term
	for _, r := range c.Requires {
		pres = append(pres, env.evalBool(r.Expr))
	}
	for _, r := range c.Ensures {
		posts = append(posts, env.evalBool(r.Expr))
	}
	return And(pres...), And(posts...), true
}

// linkFuncValue states, once per path, what is known about a function value of one parameter for all arguments.
func (v *Verifier) linkFuncValue(st *State, id int64, sig *types.Signature) {
	if st.fvLinked[id] {
		return
	}
	if st.fvLinked == nil {
		st.fvLinked = map[int64]bool{}
	}
	st.fvLinked[id] = true
	ci := closures[id]
	if ci == nil || sig.Params().Len() != 1 {
		return
	}
	bv := BVar("x$fv", sortOf(sig.Params().At(0).Type()))
	app := fvApp(IntLit(id), []*Term{bv}, sig)
	if ci.fn.String() == "unicode.IsSpace" {
		st.assume(Forall([]*Term{bv}, Eq(app, App("is_space", SBool, bv))))
		st.assume(Not(App("is_space", SBool, IntLit(-1))))
		v.assumeNote("unicode.IsSpace as a function value: is_space, false at -1")
		return
	}
	pre, post, ok := v.closureFacts(st, id, []*Term{bv}, app)
	if !ok {
		v.assumeNote("function value " + ci.fn.String() + " has no contract: nothing is known about its results")
		return
	}
	inv := And(typeInv(bv, sig.Params().At(0).Type(), 0)...)
	st.assume(Forall([]*Term{bv}, Implies(And(inv, pre), post)))
}

// countedLoopCounter finds, among the phis of a loop head, the one integer variable that enters as the constant 0
// and comes back as itself plus one.
func countedLoopCounter(b *ssa.BasicBlock) *ssa.Phi {
	var found *ssa.Phi
	for _, in := range b.Instrs {
		p, ok := in.(*ssa.Phi)
		if !ok {
			break
		}
		if bt, ok := p.Type().Underlying().(*types.Basic); !ok || bt.Info()&types.IsInteger == 0 {
			continue
		}
		zero, step := false, false
		for _, e := range p.Edges {
			switch x := e.(type) {
			case *ssa.Const:
				if x.Value != nil && x.Value.String() == "0" {
					zero = true
				}
			case *ssa.BinOp:
				if x.Op == token.ADD && x.X == ssa.Value(p) {
					if c, ok := x.Y.(*ssa.Const); ok && c.Value != nil && c.Value.String() == "1" {
						step = true
					}
				}
			}
		}
		if zero && step {
			if found != nil {
				return nil
			}
			found = p
		}
	}
	return found
}
