package main

// Contracts live in comment-only lines "//@ ..." of files named verif_*.go
// (build tag verif) in the package of the functions they describe.
//
//	//@ func Degree.Semitone returns (s, ok)
//	//@   requires  <expr>
//	//@   ensures   <expr>
//	//@   decreases <expr>
//	//@   pure | allocs T1, T2 | modifies T1, T2
//	//@   loop 0 invariant <expr>
//	//@   loop 0 decreases <expr>
//	//@   loop 0 modifies T1
//	//@   trusted | inline | nosafety
//	//@ iface Mapper.GetChordAttributes (m, name) returns (attrs, ok)
//
// Expressions are Go expressions extended with  a ==> b,  old(e),
// forall(i, lo, hi, body), exists(i, lo, hi, body), ite(c, a, b), spec.f(...).

import (
	"fmt"
	"go/ast"
	"go/parser"
	"strconv"
	"strings"

	"golang.org/x/tools/go/packages"
)

type Clause struct {
	Text string
	Expr ast.Expr
	Line int
}

type Macro struct {
	Params []string
	Body   Clause
	Pkg    *packages.Package
}

type LoopSpec struct {
	Invariants []Clause
	Decreases  *Clause
	Modifies   []string
	Allocs     []string
}

type Contract struct {
	External bool // contract of a dependency's function (assumed)
	Key      string
	Pkg      *packages.Package
	File     string
	Line     int
	Results  []string
	Params   []string // iface contracts only
	IsIface  bool
	Requires []Clause
	Ensures  []Clause
	GhostEnsures []Clause // history-variable definitions: assumed at call sites, not checked in the body
	Decr     *Clause
	Pure     bool
	Allocs   []string
	Modifies []string
	Loops    map[int]*LoopSpec
	InlinedLoops map[string]map[int]*LoopSpec // loops of callees that are inlined into this function: "loop pkg.F$1/0 invariant ..."
	Trusted  bool
	Inlines  []string // callees (by key) whose bodies are executed here instead of using their contracts
	MayExit  bool // every path may end in a call that does not return (os.Exit): no reachable return is demanded
	NoPrune  bool // explore every syntactic path without asking the solver whether it is feasible
	RecBound *Clause // must hold for the arguments of every recursive call (bounds the recursion depth)
	Enumerate []string
	Inline   bool
	NoSafety bool
	Used     bool
}

func (c *Contract) inlinedLoop(key string, i int) *LoopSpec {
	if c.InlinedLoops == nil {
		c.InlinedLoops = map[string]map[int]*LoopSpec{}
	}
	if c.InlinedLoops[key] == nil {
		c.InlinedLoops[key] = map[int]*LoopSpec{}
	}
	if c.InlinedLoops[key][i] == nil {
		c.InlinedLoops[key][i] = &LoopSpec{}
	}
	return c.InlinedLoops[key][i]
}

func (c *Contract) loop(i int) *LoopSpec {
	if c.Loops == nil {
		c.Loops = map[int]*LoopSpec{}
	}
	if c.Loops[i] == nil {
		c.Loops[i] = &LoopSpec{}
	}
	return c.Loops[i]
}

func parseContractFile(P *Program, pkg *packages.Package, f *ast.File, name string) error {
	var cur *Contract
	for _, cg := range f.Comments {
		for _, c := range cg.List {
			if !strings.HasPrefix(c.Text, "//@") {
				continue
			}
			line := P.Prog.Fset.Position(c.Pos()).Line
			text := strings.TrimSpace(strings.TrimPrefix(c.Text, "//@"))
			if text == "" {
				continue
			}
			word, rest := splitWord(text)
			fail := func(err error) error {
				return fmt.Errorf("%s:%d: %v", name, line, err)
			}
			switch word {
			case "define":
				// define name(a, b) <expr>
				i := strings.Index(rest, "(")
				j := strings.Index(rest, ")")
				if i < 0 || j < i {
					return fail(fmt.Errorf("bad define"))
				}
				mname := strings.TrimSpace(rest[:i])
				cl, err := parseClause(strings.TrimSpace(rest[j+1:]), line)
				if err != nil {
					return fail(err)
				}
				P.Macros[pkg.Types.Name()+"."+mname] = &Macro{Params: parseNameList(rest[i : j+1]), Body: cl, Pkg: pkg}
				cur = nil
			case "func", "iface", "funcval":
				cur = &Contract{Pkg: pkg, File: name, Line: line, IsIface: word == "iface" || word == "funcval"}
				head := rest
				if i := strings.Index(head, "returns"); i >= 0 {
					cur.Results = parseNameList(head[i+len("returns"):])
					head = strings.TrimSpace(head[:i])
				}
				if i := strings.Index(head, "("); i >= 0 {
					cur.Params = parseNameList(head[i:])
					head = strings.TrimSpace(head[:i])
				}
				cur.Key = pkg.Types.Name() + "." + head
				if i := strings.Index(head, "."); i > 0 && word == "func" {
					// a function of a dependency, named through the package's import: an assumed contract
					for _, ip := range pkg.Types.Imports() {
						if ip.Name() == head[:i] && pkg.Types.Scope().Lookup(head[:i]) == nil {
							cur.Key = head
							cur.External = true
						}
					}
				}
				if word == "funcval" {
					cur.Key = "funcval:" + pkg.Types.Name() + "." + head
				} else if cur.IsIface {
					if strings.Count(head, ".") >= 2 {
						cur.Key = "iface:" + head
					} else {
						cur.Key = "iface:" + cur.Key
					}
				}
				if _, dup := P.Contracts[cur.Key]; dup {
					return fail(fmt.Errorf("duplicate contract %s", cur.Key))
				}
				P.Contracts[cur.Key] = cur
			case "requires", "ensures", "decreases", "ghostensures", "recbound":
				if cur == nil {
					return fail(fmt.Errorf("clause outside contract"))
				}
				cl, err := parseClause(rest, line)
				if err != nil {
					return fail(err)
				}
				switch word {
				case "requires":
					cur.Requires = append(cur.Requires, cl)
				case "ensures":
					cur.Ensures = append(cur.Ensures, cl)
				case "ghostensures":
					cur.GhostEnsures = append(cur.GhostEnsures, cl)
				case "recbound":
					cur.RecBound = &cl
				case "decreases":
					cur.Decr = &cl
				}
			case "enumerate":
				cur.Enumerate = append(cur.Enumerate, rest)
			case "inlines":
				cur.Inlines = append(cur.Inlines, parseNameList(rest)...)
			case "noprune":
				cur.NoPrune = true
			case "mayexit":
				cur.MayExit = true
			case "pure":
				cur.Pure = true
			case "trusted":
				cur.Trusted = true
			case "inline":
				cur.Inline = true
			case "nosafety":
				cur.NoSafety = true
			case "allocs":
				cur.Allocs = append(cur.Allocs, parseNameList(rest)...)
			case "modifies":
				cur.Modifies = append(cur.Modifies, parseNameList(rest)...)
			case "loop":
				ns, r2 := splitWord(rest)
				lp := (*LoopSpec)(nil)
				if k := strings.LastIndex(ns, "/"); k > 0 {
					// a loop of a callee inlined here: pkg.Func$1/0
					n, err := strconv.Atoi(ns[k+1:])
					if err != nil {
						return fail(err)
					}
					lp = cur.inlinedLoop(ns[:k], n)
				} else {
					n, err := strconv.Atoi(ns)
					if err != nil {
						return fail(err)
					}
					lp = cur.loop(n)
				}
				w2, r3 := splitWord(r2)
				switch w2 {
				case "invariant":
					cl, err := parseClause(r3, line)
					if err != nil {
						return fail(err)
					}
					lp.Invariants = append(lp.Invariants, cl)
				case "decreases":
					cl, err := parseClause(r3, line)
					if err != nil {
						return fail(err)
					}
					lp.Decreases = &cl
				case "modifies":
					lp.Modifies = append(lp.Modifies, parseNameList(r3)...)
				case "allocs":
					lp.Allocs = append(lp.Allocs, parseNameList(r3)...)
				default:
					return fail(fmt.Errorf("unknown loop clause %q", w2))
				}
			default:
				return fail(fmt.Errorf("unknown contract keyword %q", word))
			}
		}
	}
	return nil
}

func splitWord(s string) (string, string) {
	s = strings.TrimSpace(s)
	i := strings.IndexAny(s, " \t")
	if i < 0 {
		return s, ""
	}
	return s[:i], strings.TrimSpace(s[i:])
}

func parseNameList(s string) []string {
	s = strings.TrimSpace(s)
	s = strings.TrimPrefix(s, "(")
	s = strings.TrimSuffix(s, ")")
	var out []string
	for _, p := range strings.Split(s, ",") {
		p = strings.TrimSpace(p)
		if p != "" {
			out = append(out, p)
		}
	}
	return out
}

func parseClause(s string, line int) (Clause, error) {
	e, err := parseSpecExpr(s)
	if err != nil {
		return Clause{}, fmt.Errorf("cannot parse %q: %v", s, err)
	}
	return Clause{Text: s, Expr: e, Line: line}, nil
}

func parseSpecExpr(s string) (ast.Expr, error) {
	return parser.ParseExpr(rewriteImplies(s))
}

// rewriteImplies turns  a ==> b ==> c  into implies(a, implies(b, c)) at every
// nesting depth.
func rewriteImplies(s string) string {
	// first rewrite inside bracketed groups
	var b strings.Builder
	i := 0
	for i < len(s) {
		c := s[i]
		if c == '"' || c == '`' || c == '\'' {
			j := i + 1
			for j < len(s) && s[j] != c {
				if s[j] == '\\' && c != '`' {
					j++
				}
				j++
			}
			if j < len(s) {
				j++
			}
			b.WriteString(s[i:j])
			i = j
			continue
		}
		if c == '(' || c == '[' || c == '{' {
			close := map[byte]byte{'(': ')', '[': ']', '{': '}'}[c]
			depth := 1
			j := i + 1
			for j < len(s) && depth > 0 {
				if s[j] == c {
					depth++
				} else if s[j] == close {
					depth--
				} else if s[j] == '"' {
					j++
					for j < len(s) && s[j] != '"' {
						if s[j] == '\\' {
							j++
						}
						j++
					}
				}
				j++
			}
			inner := s[i+1 : j-1]
			parts := splitTop(inner, ",")
			for k := range parts {
				parts[k] = rewriteImplies(parts[k])
			}
			b.WriteByte(c)
			b.WriteString(strings.Join(parts, ","))
			b.WriteByte(close)
			i = j
			continue
		}
		b.WriteByte(c)
		i++
	}
	t := b.String()
	parts := splitTop(t, "==>")
	if len(parts) == 1 {
		return t
	}
	r := strings.TrimSpace(parts[len(parts)-1])
	for k := len(parts) - 2; k >= 0; k-- {
		r = "implies(" + strings.TrimSpace(parts[k]) + ", " + r + ")"
	}
	return r
}

// splitTop splits s on sep occurrences at bracket depth 0 (outside strings).
func splitTop(s, sep string) []string {
	var out []string
	depth := 0
	last := 0
	for i := 0; i < len(s); i++ {
		c := s[i]
		switch c {
		case '(', '[', '{':
			depth++
		case ')', ']', '}':
			depth--
		case '"':
			i++
			for i < len(s) && s[i] != '"' {
				if s[i] == '\\' {
					i++
				}
				i++
			}
		default:
			if depth == 0 && strings.HasPrefix(s[i:], sep) {
				out = append(out, s[last:i])
				i += len(sep) - 1
				last = i + 1
			}
		}
	}
	out = append(out, s[last:])
	return out
}
