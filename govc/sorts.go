package main

import (
	"fmt"
	"go/types"
	"strings"
)

// sortOf maps a Go type to its SMT sort.
//
//	integers, named integers, pointers, maps, funcs, chans -> Int (references are Ints)
//	bool -> Bool, float -> Real, string -> String
//	struct -> datatype, [N]T -> (Array Int T), slice -> Slice, interface -> Iface
var sortCache = map[string]*Sort{}

func typeKey(t types.Type) string { return types.TypeString(t, nil) }

func sortOf(t types.Type) *Sort {
	k := typeKey(t)
	if s, ok := sortCache[k]; ok {
		return s
	}
	s := sortOf1(t)
	sortCache[k] = s
	return s
}

func sortOf1(t types.Type) *Sort {
	switch u := t.Underlying().(type) {
	case *types.Basic:
		info := u.Info()
		switch {
		case info&types.IsBoolean != 0:
			return SBool
		case info&types.IsInteger != 0:
			return SInt
		case info&types.IsFloat != 0:
			return SReal
		case info&types.IsString != 0:
			return SString
		case u.Kind() == types.UnsafePointer:
			return SInt
		case u.Kind() == types.UntypedNil:
			return SInt
		}
		panic("unsupported basic type " + t.String())
	case *types.Pointer, *types.Map, *types.Signature, *types.Chan:
		return SInt
	case *types.Slice:
		return SSlice
	case *types.Interface:
		return SIface
	case *types.Array:
		return ArraySort(SInt, sortOf(u.Elem()))
	case *types.Struct:
		name := dtName(t)
		fields := make([]SortField, u.NumFields())
		was := map[string]string{}
		for o, n := range fieldRenames(t) {
			was[n] = o
		}
		for i := 0; i < u.NumFields(); i++ {
			fields[i] = SortField{Go: u.Field(i).Name(), Acc: was[u.Field(i).Name()], Sort: sortOf(u.Field(i).Type())}
		}
		return NewDT(name, fields)
	case *types.Tuple:
		return SNone
	}
	panic(fmt.Sprintf("unsupported type %s (%T)", t, t.Underlying()))
}

var anonCount int

func dtName(t types.Type) string {
	if n, ok := t.(*types.Named); ok {
		s := n.Obj().Name()
		if n.Obj().Pkg() != nil {
			s = n.Obj().Pkg().Name() + "." + s
		}
		if n.TypeArgs() != nil {
			var as []string
			for i := 0; i < n.TypeArgs().Len(); i++ {
				as = append(as, typeKey(n.TypeArgs().At(i)))
			}
			s += "[" + strings.Join(as, ",") + "]"
		}
		return "T_" + sanitize(shorten(s))
	}
	if a, ok := t.(*types.Alias); ok {
		return dtName(types.Unalias(a))
	}
	anonCount++
	return fmt.Sprintf("T_anon%d", anonCount)
}

func shorten(s string) string {
	return strings.ReplaceAll(s, "github.com/berquerant/crd/", "")
}

// heapName is the name of the heap array holding cells of the given content sort.
func heapName(s *Sort) string {
	return "H$" + sanitize(s.Name)
}

func heapSort(s *Sort) *Sort { return ArraySort(SInt, s) }

// zero value of a sort.
func zeroTerm(s *Sort) *Term {
	switch s.Kind {
	case KInt:
		return IntLit(0)
	case KBool:
		return TFalse
	case KReal:
		return RealLit("0.0")
	case KString:
		return StrLit("")
	case KArray:
		return ConstArr(s, zeroTerm(s.Elem))
	case KDT:
		args := make([]*Term, len(s.Fields))
		for i, f := range s.Fields {
			args[i] = zeroTerm(f.Sort)
		}
		return Mk(s, args...)
	}
	panic("zeroTerm " + s.Name)
}

// intRange returns the representable range of a fixed-width integer type, or
// ok=false for 64-bit (mathematical) integers.
func intWidth(t types.Type) (bits int, signed bool, ok bool) {
	b, isB := t.Underlying().(*types.Basic)
	if !isB {
		return 0, false, false
	}
	switch b.Kind() {
	case types.Uint8:
		return 8, false, true
	case types.Uint16:
		return 16, false, true
	case types.Uint32:
		return 32, false, true
	case types.Int8:
		return 8, true, true
	case types.Int16:
		return 16, true, true
	case types.Int32:
		return 32, true, true
	}
	return 0, false, false
}

func isUnsigned(t types.Type) bool {
	b, ok := t.Underlying().(*types.Basic)
	return ok && b.Info()&types.IsUnsigned != 0
}

func isInteger(t types.Type) bool {
	b, ok := t.Underlying().(*types.Basic)
	return ok && b.Info()&types.IsInteger != 0
}

func isFloat(t types.Type) bool {
	b, ok := t.Underlying().(*types.Basic)
	return ok && b.Info()&types.IsFloat != 0
}

func isString(t types.Type) bool {
	b, ok := t.Underlying().(*types.Basic)
	return ok && b.Info()&types.IsString != 0
}
