package main

// Evaluation of specification functions on ground arguments: the bodies of the
// define-fun forms of the prelude are parsed once and applications whose
// arguments are all ground values are replaced by their value.

import (
	"math/big"
	"strings"
)

type specDef struct {
	params []string
	sorts  []*Sort
	body   *sx
	rec    bool
}

var specDefs = map[string]*specDef{}

func parseSpecDefs(text string) {
	toks := tokenizeSExp(text)
	i := 0
	for i < len(toks) {
		if toks[i] != "(" {
			i++
			continue
		}
		form, next := parseSX(toks, i)
		i = next
		if len(form.list) != 5 {
			continue
		}
		kind := form.list[0].atom
		if kind != "define-fun" && kind != "define-fun-rec" {
			continue
		}
		d := &specDef{body: form.list[4], rec: kind == "define-fun-rec"}
		ok := true
		for _, p := range form.list[2].list {
			if len(p.list) != 2 {
				ok = false
				break
			}
			d.params = append(d.params, p.list[0].atom)
			d.sorts = append(d.sorts, sortFromSX(p.list[1]))
		}
		if ok {
			specDefs[form.list[1].atom] = d
		}
	}
}

type evalFail struct{}

// evalSpecApp evaluates f(args) when the definition is known; ok=false otherwise.
func evalSpecApp(f string, args []*Term, depth int) (res *Term, ok bool) {
	d, has := specDefs[f]
	if !has || len(d.params) != len(args) || depth > 200 {
		return nil, false
	}
	defer func() {
		if r := recover(); r != nil {
			if _, is := r.(evalFail); is {
				res, ok = nil, false
				return
			}
			panic(r)
		}
	}()
	env := map[string]*Term{}
	for i, p := range d.params {
		env[p] = args[i]
	}
	r := evalSX(d.body, env, depth)
	if !r.ground {
		return nil, false
	}
	return r, true
}

func evalSX(s *sx, env map[string]*Term, depth int) *Term {
	if s.list == nil {
		a := s.atom
		if t, ok := env[a]; ok {
			return t
		}
		switch {
		case a == "true":
			return TTrue
		case a == "false":
			return TFalse
		case strings.HasPrefix(a, "\""):
			t, err := sxToTerm(s, SString)
			if err != nil {
				panic(evalFail{})
			}
			return t
		}
		if bi, ok := new(big.Int).SetString(a, 10); ok {
			return IntBig(bi)
		}
		if strings.Contains(a, ".") {
			if _, ok := new(big.Rat).SetString(a); ok {
				return RealLit(a)
			}
		}
		if r, ok := evalSpecApp(a, nil, depth+1); ok {
			return r
		}
		panic(evalFail{})
	}
	if len(s.list) == 0 {
		panic(evalFail{})
	}
	head := s.list[0].atom
	if head == "let" {
		env2 := map[string]*Term{}
		for k, v := range env {
			env2[k] = v
		}
		for _, b := range s.list[1].list {
			env2[b.list[0].atom] = evalSX(b.list[1], env, depth)
		}
		return evalSX(s.list[2], env2, depth)
	}
	if head == "ite" {
		c := evalSX(s.list[1], env, depth)
		if c.IsTrue() {
			return evalSX(s.list[2], env, depth)
		}
		if c.IsFalse() {
			return evalSX(s.list[3], env, depth)
		}
		panic(evalFail{})
	}
	var as []*Term
	for _, x := range s.list[1:] {
		as = append(as, evalSX(x, env, depth))
	}
	for _, a := range as {
		if !a.ground {
			panic(evalFail{})
		}
	}
	switch head {
	case "and":
		return And(as...)
	case "or":
		return Or(as...)
	case "not":
		return Not(as[0])
	case "=>":
		return Implies(as[0], as[1])
	case "=":
		return Eq(as[0], as[1])
	case "distinct":
		return Neq(as[0], as[1])
	case "+":
		r := as[0]
		for _, a := range as[1:] {
			r = numOp("+", r, a)
		}
		return r
	case "*":
		r := as[0]
		for _, a := range as[1:] {
			r = numOp("*", r, a)
		}
		return r
	case "-":
		if len(as) == 1 {
			if as[0].Sort == SReal {
				return RealLit("-" + as[0].Str)
			}
			return Neg(as[0])
		}
		r := as[0]
		for _, a := range as[1:] {
			r = numOp("-", r, a)
		}
		return r
	case "div":
		return SDiv(as[0], as[1])
	case "mod":
		return SMod(as[0], as[1])
	case "<":
		return numCmp("<", as[0], as[1])
	case "<=":
		return numCmp("<=", as[0], as[1])
	case ">":
		return numCmp("<", as[1], as[0])
	case ">=":
		return numCmp("<=", as[1], as[0])
	}
	if r, ok := evalSpecApp(head, as, depth+1); ok {
		return r
	}
	panic(evalFail{})
}

func numOp(op string, a, b *Term) *Term {
	if a.Sort == SInt && b.Sort == SInt {
		return arith(op, a, b)
	}
	panic(evalFail{})
}

func numCmp(op string, a, b *Term) *Term {
	if a.Sort == SInt && b.Sort == SInt {
		return cmp(op, a, b)
	}
	panic(evalFail{})
}

// ---- symbolic unfolding of recursive specification functions ----

var selectorIndex map[string]struct {
	so  *Sort
	idx int
}

func buildSelectorIndex() {
	selectorIndex = map[string]struct {
		so  *Sort
		idx int
	}{}
	for _, so := range dtSorts {
		for i, f := range so.Fields {
			selectorIndex[f.Name] = struct {
				so  *Sort
				idx int
			}{so, i}
		}
	}
}

// instSX builds the term denoted by an s-expression under a symbolic environment.
func instSX(s *sx, env map[string]*Term) *Term {
	if s.list == nil {
		a := s.atom
		if t, ok := env[a]; ok {
			return t
		}
		switch {
		case a == "true":
			return TTrue
		case a == "false":
			return TFalse
		case strings.HasPrefix(a, "\""):
			t, err := sxToTerm(s, SString)
			if err != nil {
				panic(evalFail{})
			}
			return t
		}
		if bi, ok := new(big.Int).SetString(a, 10); ok {
			return IntBig(bi)
		}
		if strings.Contains(a, ".") {
			if _, ok := new(big.Rat).SetString(a); ok {
				return RealLit(a)
			}
		}
		if sf, ok := specFuncs[a]; ok && len(sf.Args) == 0 {
			return App(a, sf.Ret)
		}
		panic(evalFail{})
	}
	head := s.list[0].atom
	if head == "let" {
		env2 := map[string]*Term{}
		for k, v := range env {
			env2[k] = v
		}
		for _, b := range s.list[1].list {
			env2[b.list[0].atom] = instSX(b.list[1], env)
		}
		return instSX(s.list[2], env2)
	}
	var as []*Term
	for _, x := range s.list[1:] {
		as = append(as, instSX(x, env))
	}
	switch head {
	case "ite":
		return Ite(as[0], as[1], as[2])
	case "and":
		return And(as...)
	case "or":
		return Or(as...)
	case "not":
		return Not(as[0])
	case "=>":
		return Implies(as[0], as[1])
	case "=":
		return Eq(as[0], as[1])
	case "select":
		return Select(as[0], as[1])
	case "to_real":
		if as[0].IsInt() {
			return RealLit(as[0].Int.String())
		}
		return mk("to_real", SReal, as[0])
	case "real_mul":
		return realMul(as[0], as[1])
	case "real_div":
		return realDiv(as[0], as[1])
	case "+", "-", "*", "/":
		if as[0].Sort == SReal {
			r := as[0]
			if len(as) == 1 && head == "-" {
				return mk("-", SReal, r)
			}
			for _, a := range as[1:] {
				r = mk(head, SReal, r, a)
			}
			return r
		}
		if len(as) == 1 && head == "-" {
			return Neg(as[0])
		}
		r := as[0]
		for _, a := range as[1:] {
			r = arith(head, r, a)
		}
		return r
	case "div":
		return SDiv(as[0], as[1])
	case "mod":
		return SMod(as[0], as[1])
	case "<":
		return lessT(as[0], as[1], false)
	case "<=":
		return lessT(as[0], as[1], true)
	case ">":
		return lessT(as[1], as[0], false)
	case ">=":
		return lessT(as[1], as[0], true)
	}
	if si, ok := selectorIndex[head]; ok && len(as) == 1 && as[0].Sort == si.so {
		return Sel(as[0], si.idx)
	}
	for _, so := range dtSorts {
		if so.Ctor == head && len(as) == len(so.Fields) {
			return Mk(so, as...)
		}
	}
	if sf, ok := specFuncs[head]; ok && len(sf.Args) == len(as) {
		return App(head, sf.Ret, as...)
	}
	panic(evalFail{})
}

func lessT(a, b *Term, eq bool) *Term {
	if a.Sort == SReal {
		if eq {
			return mk("<=", SBool, a, b)
		}
		return mk("<", SBool, a, b)
	}
	if eq {
		return Le(a, b)
	}
	return Lt(a, b)
}

// unfoldings: for every application of a recursive specification function in ts,
// the equation  f(args) = body[args]  (two levels deep), as hypotheses.
func unfoldings(ts []*Term) []*Term {
	if selectorIndex == nil {
		buildSelectorIndex()
	}
	var out []*Term
	done := map[*Term]bool{}
	var frontier []*Term
	collectRec := func(t *Term, into *[]*Term) {
		seen := map[*Term]bool{}
		var rec func(x *Term)
		rec = func(x *Term) {
			if seen[x] {
				return
			}
			seen[x] = true
			if x.Op == "app" && !x.open {
				if d, ok := specDefs[x.Str]; ok && d.rec && !done[x] {
					*into = append(*into, x)
				}
			}
			for _, a := range x.Args {
				rec(a)
			}
		}
		rec(t)
	}
	for _, t := range ts {
		collectRec(t, &frontier)
	}
	for level := 0; level < 2 && len(frontier) > 0 && len(out) < 40; level++ {
		var next []*Term
		for _, app := range frontier {
			if done[app] {
				continue
			}
			done[app] = true
			d := specDefs[app.Str]
			env := map[string]*Term{}
			for i, p := range d.params {
				env[p] = app.Args[i]
			}
			var body *Term
			func() {
				defer func() {
					if r := recover(); r != nil {
						if _, is := r.(evalFail); !is {
							panic(r)
						}
					}
				}()
				body = instSX(d.body, env)
			}()
			if body == nil || body.Sort != app.Sort {
				continue
			}
			eq := mk("=", SBool, app, body)
			out = append(out, eq)
			collectRec(body, &next)
		}
		frontier = next
	}
	return out
}
