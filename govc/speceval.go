package main

// Evaluation of specification functions on ground arguments: the bodies of the
// define-fun forms of the prelude are parsed once and applications whose
// arguments are all ground values are replaced by their value.

import (
	"math/big"
	"strings"
)

type specDef struct {
	params []string
	sorts  []*Sort
	body   *sx
	rec    bool
}

var specDefs = map[string]*specDef{}

func parseSpecDefs(text string) {
	toks := tokenizeSExp(text)
	i := 0
	for i < len(toks) {
		if toks[i] != "(" {
			i++
			continue
		}
		form, next := parseSX(toks, i)
		i = next
		if len(form.list) != 5 {
			continue
		}
		kind := form.list[0].atom
		if kind != "define-fun" && kind != "define-fun-rec" {
			continue
		}
		d := &specDef{body: form.list[4], rec: kind == "define-fun-rec"}
		ok := true
		for _, p := range form.list[2].list {
			if len(p.list) != 2 {
				ok = false
				break
			}
			d.params = append(d.params, p.list[0].atom)
			d.sorts = append(d.sorts, sortFromSX(p.list[1]))
		}
		if ok {
			specDefs[form.list[1].atom] = d
		}
	}
}

type evalFail struct{}

// evalSpecApp evaluates f(args) when the definition is known; ok=false otherwise.
func evalSpecApp(f string, args []*Term, depth int) (res *Term, ok bool) {
	d, has := specDefs[f]
	if !has || len(d.params) != len(args) || depth > 200 {
		return nil, false
	}
	defer func() {
		if r := recover(); r != nil {
			if _, is := r.(evalFail); is {
				res, ok = nil, false
				return
			}
			panic(r)
		}
	}()
	env := map[string]*Term{}
	for i, p := range d.params {
		env[p] = args[i]
	}
	r := evalSX(d.body, env, depth)
	if !r.ground {
		return nil, false
	}
	return r, true
}

func evalSX(s *sx, env map[string]*Term, depth int) *Term {
	if s.list == nil {
		a := s.atom
		if t, ok := env[a]; ok {
			return t
		}
		switch {
		case a == "true":
			return TTrue
		case a == "false":
			return TFalse
		case strings.HasPrefix(a, "\""):
			t, err := sxToTerm(s, SString)
			if err != nil {
				panic(evalFail{})
			}
			return t
		}
		if bi, ok := new(big.Int).SetString(a, 10); ok {
			return IntBig(bi)
		}
		if strings.Contains(a, ".") {
			if _, ok := new(big.Rat).SetString(a); ok {
				return RealLit(a)
			}
		}
		if r, ok := evalSpecApp(a, nil, depth+1); ok {
			return r
		}
		panic(evalFail{})
	}
	if len(s.list) == 0 {
		panic(evalFail{})
	}
	head := s.list[0].atom
	if head == "let" {
		env2 := map[string]*Term{}
		for k, v := range env {
			env2[k] = v
		}
		for _, b := range s.list[1].list {
			env2[b.list[0].atom] = evalSX(b.list[1], env, depth)
		}
		return evalSX(s.list[2], env2, depth)
	}
	if head == "ite" {
		c := evalSX(s.list[1], env, depth)
		if c.IsTrue() {
			return evalSX(s.list[2], env, depth)
		}
		if c.IsFalse() {
			return evalSX(s.list[3], env, depth)
		}
		panic(evalFail{})
	}
	var as []*Term
	for _, x := range s.list[1:] {
		as = append(as, evalSX(x, env, depth))
	}
	for _, a := range as {
		if !a.ground {
			panic(evalFail{})
		}
	}
	switch head {
	case "and":
		return And(as...)
	case "or":
		return Or(as...)
	case "not":
		return Not(as[0])
	case "=>":
		return Implies(as[0], as[1])
	case "=":
		return Eq(as[0], as[1])
	case "distinct":
		return Neq(as[0], as[1])
	case "+":
		r := as[0]
		for _, a := range as[1:] {
			r = numOp("+", r, a)
		}
		return r
	case "*":
		r := as[0]
		for _, a := range as[1:] {
			r = numOp("*", r, a)
		}
		return r
	case "-":
		if len(as) == 1 {
			if as[0].Sort == SReal {
				return RealLit("-" + as[0].Str)
			}
			return Neg(as[0])
		}
		r := as[0]
		for _, a := range as[1:] {
			r = numOp("-", r, a)
		}
		return r
	case "div":
		return SDiv(as[0], as[1])
	case "mod":
		return SMod(as[0], as[1])
	case "<":
		return numCmp("<", as[0], as[1])
	case "<=":
		return numCmp("<=", as[0], as[1])
	case ">":
		return numCmp("<", as[1], as[0])
	case ">=":
		return numCmp("<=", as[1], as[0])
	}
	if r, ok := evalSpecApp(head, as, depth+1); ok {
		return r
	}
	panic(evalFail{})
}

func numOp(op string, a, b *Term) *Term {
	if a.Sort == SInt && b.Sort == SInt {
		return arith(op, a, b)
	}
	panic(evalFail{})
}

func numCmp(op string, a, b *Term) *Term {
	if a.Sort == SInt && b.Sort == SInt {
		return cmp(op, a, b)
	}
	panic(evalFail{})
}
