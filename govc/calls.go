package main

import (
	"fmt"
	"os"
	"go/types"
	"strings"

	"golang.org/x/tools/go/ssa"
)

func (v *Verifier) call(st *State, in *ssa.Call) bool {
	cc := in.Common()
	var args []*Term
	for _, a := range cc.Args {
		args = append(args, v.val(st, a))
	}
	if b, ok := cc.Value.(*ssa.Builtin); ok {
		return v.builtin(st, in, b, args)
	}
	if cc.IsInvoke() {
		recv := v.val(st, cc.Value)
		return v.invoke(st, in, recv, cc.Method, args)
	}
	if fn := cc.StaticCallee(); fn != nil {
		var bindings []*Term
		if mc, ok := cc.Value.(*ssa.MakeClosure); ok {
			for _, b := range mc.Bindings {
				bindings = append(bindings, v.val(st, b))
			}
		}
		return v.callFn(st, in, fn, bindings, args)
	}
	// dynamic call through a function value
	f := v.val(st, cc.Value)
	if !f.IsInt() && v.inc != nil {
		// a function value read from a cell that callees may only have extended (not overwritten) shows up as
		// a conditional on water marks: if every literal leaf is the same closure and the path entails it, use it
		var lits []*Term
		var leaves func(t *Term)
		leaves = func(t *Term) {
			if t.Op == "ite" {
				leaves(t.Args[1])
				leaves(t.Args[2])
				return
			}
			if t.IsInt() {
				lits = append(lits, t)
			}
		}
		leaves(f)
		if len(lits) > 0 {
			same := true
			for _, l := range lits {
				if l != lits[0] {
					same = false
				}
			}
			if _, known := closures[lits[0].Int64()]; same && known && !v.inc.Feasible(st.pc, Neq(f, lits[0])) {
				f = lits[0]
			}
		}
	}
	if f.IsInt() {
		if ci, ok := closures[f.Int64()]; ok {
			return v.callFn(st, in, ci.fn, ci.bindings, args)
		}
		if f.Int.Sign() == 0 {
			v.safety(st, in, "nilcall", TFalse)
			return false
		}
	}
	v.safety(st, in, "nilcall", Neq(f, IntLit(0)))
	// unknown function value loaded from a struct field: a named function-value contract
	// "funcval pkg.Type.field (self, args...)" may describe it (self is the struct).
	if u, ok := cc.Value.(*ssa.UnOp); ok {
		if fa, ok := u.X.(*ssa.FieldAddr); ok {
			st0 := elemType(fa.X.Type())
			if named, ok := st0.(*types.Named); ok {
				fld := named.Underlying().(*types.Struct).Field(fa.Field)
				key := "funcval:" + named.Obj().Pkg().Name() + "." + named.Obj().Name() + "." + fld.Name()
				if c := v.P.Contracts[key]; c != nil {
					self := st.load(v.val(st, fa.X), sortOf(st0))
					sig := cc.Signature()
					ps := []*types.Var{types.NewVar(0, nil, "self", st0)}
					for i := 0; i < sig.Params().Len(); i++ {
						ps = append(ps, sig.Params().At(i))
					}
					sig2 := types.NewSignatureType(nil, nil, nil, types.NewTuple(ps...), sig.Results(), false)
					v.assumeNote("function value " + key + " assumed to satisfy its funcval contract (established where the struct is built)")
					return v.applyContract(st, in, c, nil, sig2, append([]*Term{self}, args...))
				}
			}
		}
	}
	v.assumeNote("call through unknown function value in " + v.fnLabelTop(st) + " havocs its results only")
	v.bindResults(st, in, cc.Signature(), nil)
	return true
}

func (v *Verifier) fnLabelTop(st *State) string { return funcKey(st.top().fn) }

func (v *Verifier) bindResults(st *State, in *ssa.Call, sig *types.Signature, given []*Term) []*Term {
	res := sig.Results()
	var rs []*Term
	for i := 0; i < res.Len(); i++ {
		var t *Term
		if given != nil {
			t = given[i]
		} else {
			t = Fresh("r_"+in.Name(), sortOf(res.At(i).Type()))
			for _, c := range typeInv(t, res.At(i).Type(), 0) {
				st.assume(c)
			}
		}
		rs = append(rs, t)
	}
	switch len(rs) {
	case 0:
	case 1:
		st.env[in] = rs[0]
	default:
		st.env[in] = mkTuple(rs...)
	}
	return rs
}

func (v *Verifier) builtin(st *State, in *ssa.Call, b *ssa.Builtin, args []*Term) bool {
	cc := in.Common()
	switch b.Name() {
	case "len":
		T := cc.Args[0].Type()
		switch T.Underlying().(type) {
		case *types.Slice:
			st.env[in] = Sel(args[0], 2)
		case *types.Map:
			ms := mapSortOf(T)
			st.env[in] = Sel(Select(st.getHeap(ms), args[0]), 2)
			st.assume(Ge(st.env[in], IntLit(0)))
		case *types.Basic:
			if args[0].Op == "str" {
				st.env[in] = IntLit(int64(len(args[0].Str)))
			} else {
				st.env[in] = App("str_bytelen", SInt, args[0])
				st.assume(Ge(st.env[in], IntLit(0)))
				st.assume(Eq(Eq(st.env[in], IntLit(0)), Eq(args[0], StrLit(""))))
			}
		case *types.Array:
			st.env[in] = IntLit(T.Underlying().(*types.Array).Len())
		default:
			unsup("len of %s", T)
		}
		return true
	case "cap":
		if _, ok := cc.Args[0].Type().Underlying().(*types.Slice); ok {
			c := Fresh("cap", SInt)
			st.assume(Ge(c, Sel(args[0], 2)))
			st.env[in] = c
			return true
		}
	case "append":
		// append(s, t...) : fresh backing array holding s's elements then t's.
		T := in.Type()
		es := sortOf(elemType(T))
		as := ArraySort(SInt, es)
		s, t := args[0], args[1]
		h := st.getHeap(as)
		sl, tl := Sel(s, 2), Sel(t, 2)
		if tl.IsInt() && tl.Int.Sign() == 0 {
			st.env[in] = s
			return true
		}
		if tl.IsInt() && tl.Int64() <= 16 {
			// new array = s's array shifted to offset 0? keep offset: copy = old array with stores
			base := Select(h, Sel(s, 0))
			if sl.IsInt() && sl.Int.Sign() == 0 {
				base = zeroTerm(as)
			}
			off := Sel(s, 1)
			if sl.IsInt() && sl.Int.Sign() == 0 {
				off = IntLit(0)
			}
			ta := Select(h, Sel(t, 0))
			for i := int64(0); i < tl.Int64(); i++ {
				base = Store(base, Add(off, Add(sl, IntLit(i))), Select(ta, Add(Sel(t, 1), IntLit(i))))
			}
			r := st.alloc(as, base)
			st.env[in] = Mk(SSlice, r, off, Add(sl, tl))
			return true
		}
		// symbolic-length tail: result described by quantified facts
		r := st.freshRef()
		na := Fresh("app", as)
		st.setHeap(as, Store(st.getHeap(as), r, na))
		i := BVar("i$", SInt)
		sa := Select(h, Sel(s, 0))
		ta := Select(h, Sel(t, 0))
		st.assume(Forall([]*Term{i}, Implies(And(Le(IntLit(0), i), Lt(i, sl)), Eq(Select(na, i), Select(sa, Add(Sel(s, 1), i))))))
		st.assume(Forall([]*Term{i}, Implies(And(Le(IntLit(0), i), Lt(i, tl)), Eq(Select(na, Add(sl, i)), Select(ta, Add(Sel(t, 1), i))))))
		st.env[in] = Mk(SSlice, r, IntLit(0), Add(sl, tl))
		return true
	case "panic":
		v.safety(st, in, "panic", TFalse)
		return false
	case "print", "println":
		return true
	case "delete":
		unsup("delete")
	case "copy":
		// copy(dst, src): the first min(len) elements of dst's array are overwritten
		dT := cc.Args[0].Type()
		if _, ok := dT.Underlying().(*types.Slice); !ok {
			unsup("copy into %s", dT)
		}
		if isString(cc.Args[1].Type()) {
			unsup("copy from string")
		}
		es := sortOf(elemType(dT))
		as := ArraySort(SInt, es)
		d, s := args[0], args[1]
		n := Ite(Le(Sel(d, 2), Sel(s, 2)), Sel(d, 2), Sel(s, 2))
		h := st.getHeap(as)
		da := Select(h, Sel(d, 0))
		sa := Select(h, Sel(s, 0))
		if n.IsInt() && n.Int64() <= 32 {
			for i := int64(0); i < n.Int64(); i++ {
				da = Store(da, Add(Sel(d, 1), IntLit(i)), Select(sa, Add(Sel(s, 1), IntLit(i))))
			}
			st.setHeap(as, Store(h, Sel(d, 0), da))
		} else {
			na := Fresh("copied", as)
			i := BVar("i$c", SInt)
			inRange := And(Le(Sel(d, 1), i), Lt(i, Add(Sel(d, 1), n)))
			st.assume(Forall([]*Term{i}, Implies(inRange, Eq(Select(na, i), Select(sa, Add(Sel(s, 1), Sub(i, Sel(d, 1))))))))
			st.assume(Forall([]*Term{i}, Implies(Not(inRange), Eq(Select(na, i), Select(da, i)))))
			st.setHeap(as, Store(h, Sel(d, 0), na))
		}
		st.env[in] = n
		return true
	case "min", "max":
		if len(args) == 2 && args[0].Sort == SInt {
			if b.Name() == "min" {
				st.env[in] = Ite(Le(args[0], args[1]), args[0], args[1])
			} else {
				st.env[in] = Ite(Le(args[0], args[1]), args[1], args[0])
			}
			return true
		}
	}
	unsup("builtin %s", b.Name())
	return false
}

func (v *Verifier) invoke(st *State, in *ssa.Call, recv *Term, m *types.Func, args []*Term) bool {
	tag := Sel(recv, 0)
	cc := in.Common()
	if tag.IsInt() && tag.Int.Sign() != 0 {
		T := typeTagTypes[tag.Int64()]
		ms := v.P.Prog.MethodSets.MethodSet(T)
		sel := ms.Lookup(m.Pkg(), m.Name())
		if sel == nil {
			unsup("method %s not found on %s", m.Name(), T)
		}
		fn := v.P.Prog.MethodValue(sel)
		if fn == nil {
			unsup("no body for %s.%s", T, m.Name())
		}
		rv := unbox(st, recv, T)
		return v.callFn(st, in, fn, nil, append([]*Term{rv}, args...))
	}
	v.safety(st, in, "nilcall", Neq(tag, IntLit(0)))
	// interface method contract
	recvT := cc.Value.Type()
	key := "iface:" + ifaceName(recvT) + "." + m.Name()
	if c := v.P.Contracts[key]; c != nil {
		return v.applyContract(st, in, c, nil, cc.Signature(), append([]*Term{recv}, args...))
	}
	if _, named := recvT.(*types.Named); !named {
		// an unnamed interface type (interface{ Value() string }): the contract of the one named interface
		// under contract that has this very method is used; values reaching it are assumed to implement that interface
		var found *Contract
		n := 0
		for k, c := range v.P.Contracts {
			if c.IsIface && strings.HasPrefix(k, "iface:") && strings.HasSuffix(k, "."+m.Name()) {
				found = c
				n++
			}
		}
		if n == 1 {
			v.assumeNote(fmt.Sprintf("call of %s on an unnamed interface type uses the contract %s", m.Name(), found.Key))
			return v.applyContract(st, in, found, nil, cc.Signature(), append([]*Term{recv}, args...))
		}
	}
	if m.Name() == "Error" && m.Pkg() == nil {
		st.env[in] = Fresh("errstr", SString)
		return true
	}
	v.assumeNote(fmt.Sprintf("interface call %s.%s without contract: results havocked, heap assumed unchanged", ifaceName(recvT), m.Name()))
	v.bindResults(st, in, cc.Signature(), nil)
	return true
}

func ifaceName(T types.Type) string {
	if n, ok := T.(*types.Named); ok {
		if n.Obj().Pkg() != nil {
			return n.Obj().Pkg().Name() + "." + n.Obj().Name()
		}
		return n.Obj().Name()
	}
	return shorten(T.String())
}

func isRecursive(fn *ssa.Function, stack []*Frame) bool {
	for _, f := range stack {
		if f.fn == fn {
			return true
		}
	}
	return false
}

func (v *Verifier) callFn(st *State, in *ssa.Call, fn *ssa.Function, bindings []*Term, args []*Term) bool {
	if fn.Blocks != nil && !inRepoFn(fn) && inlineStd(fn) && !st.initMod {
		// the standard library's small iterator adapters are executed as compiled
		v.assumeNote("standard library function executed as compiled (inlined): " + funcKey(fn))
		fr := &Frame{fn: fn, block: fn.Blocks[0], call: in, visits: map[int]int{}, cuts: map[int]*cutInfo{}, bindings: bindings}
		for i, p := range fn.Params {
			st.env[p] = args[i]
		}
		st.frames = append(st.frames, fr)
		return true
	}
	if fn.Blocks == nil || !inRepoFn(fn) {
		// a dependency with an assumed (trusted) contract written in the repository
		if c := v.contractFor(fn); c != nil && c.Trusted && !st.initMod && fn.Blocks != nil {
			v.assumeNote("assumed contract of dependency: " + c.Key)
			return v.applyContract(st, in, c, fn, fn.Signature, args)
		}
		return v.external(st, in, fn, args)
	}
	c := v.contractFor(fn)
	useContract := c != nil && !c.Inline && !st.initMod
	if useContract && v.topC != nil {
		for _, k := range v.topC.Inlines {
			if k == c.Key {
				useContract = false
			}
		}
	}
	if useContract && c.IsIface {
		useContract = false
	}
	if useContract {
		v.calleeBindings = bindings
		defer func() { v.calleeBindings = nil }()
		return v.applyContract(st, in, c, fn, fn.Signature, args)
	}
	if isRecursive(fn, st.frames) {
		unsup("recursive call to %s needs a contract", fn)
	}
	if len(st.frames) > 40 {
		unsup("inlining depth exceeded at %s", fn)
	}
	// inline
	fr := &Frame{fn: fn, block: fn.Blocks[0], call: in, visits: map[int]int{}, cuts: map[int]*cutInfo{}, bindings: bindings}
	for _, b := range fn.Blocks {
		for _, x := range b.Instrs {
			if _, ok := x.(*ssa.Defer); ok {
				fr.deferd = true
			}
		}
	}
	for i, p := range fn.Params {
		st.env[p] = args[i]
	}
	st.frames = append(st.frames, fr)
	return true
}

func inRepoFn(fn *ssa.Function) bool {
	if fn.Pkg != nil {
		return inRepo(fn.Pkg.Pkg)
	}
	if o := fn.Origin(); o != nil && o.Pkg != nil {
		return inRepo(o.Pkg.Pkg)
	}
	if fn.Parent() != nil {
		return inRepoFn(fn.Parent())
	}
	if fn.Object() != nil {
		return inRepo(fn.Object().Pkg())
	}
	return false
}

// applyContract: assert requires, havoc, assume ensures.
func (v *Verifier) applyContract(st *State, in *ssa.Call, c *Contract, fn *ssa.Function, sig *types.Signature, args []*Term) bool {
	c.Used = true
	site := fmt.Sprintf("%s>%s@%d", v.fnLabel(st), strings.TrimPrefix(c.Key, "iface:"), siteOrdinal(in))
	env := &SpecEnv{v: v, st: st, pkg: c.Pkg.Types, vars: map[string]SVal{}}
	if fn != nil && len(fn.FreeVars) > 0 && len(v.calleeBindings) == len(fn.FreeVars) && fn.Blocks != nil {
		// a closure: the names of the variables it captured denote those variables (through the closure's bindings)
		env.fr = &Frame{fn: fn, block: fn.Blocks[0], bindings: v.calleeBindings, visits: map[int]int{}, cuts: map[int]*cutInfo{}}
	}
	v.calleeBindings = nil
	names, tys := contractParams(c, fn, sig)
	if len(names) != len(args) {
		unsup("contract %s: %d parameter names for %d arguments", c.Key, len(names), len(args))
	}
	for i, n := range names {
		env.vars[n] = SVal{args[i], tys[i]}
	}
	if fn != nil {
		// parameters renamed since the contract was written keep the name the contract uses (names.go)
		for was, now := range renamesOf(v.P, fn) {
			if val, ok := env.vars[now]; ok {
				if _, taken := env.vars[was]; !taken {
					env.vars[was] = val
				}
			}
		}
	}
	if fn != nil && fn.Blocks != nil {
		// parameters the compiler left unnamed (the element variable of a range-over-func body) go by the
		// name the source gives them
		dn := debugNames(fn)
		for i, p := range fn.Params {
			if src, ok := dn[p]; ok && i < len(args) {
				if _, taken := env.vars[src]; !taken {
					env.vars[src] = SVal{args[i], tys[i]}
				}
			}
		}
	}
	for i, r := range c.Requires {
		g := env.evalBool(r.Expr)
		v.addOb(fmt.Sprintf("pre:%s#%d", site, i+1), "pre", r.Text, st, g, false)
		st.assume(g)
	}
	// termination of recursion
	if fn != nil && v.top != nil && fn == v.top && c.Decr != nil && v.entry != nil {
		callee := env.eval(c.Decr.Expr).T
		tenv := v.entryEnv()
		cur := tenv.eval(c.Decr.Expr).T
		v.addOb(fmt.Sprintf("term:%s", site), "term", "decreases "+c.Decr.Text, st, And(Ge(callee, IntLit(0)), Lt(callee, cur)), false)
		if c.RecBound != nil {
			v.addOb(fmt.Sprintf("depth:%s", site), "term", "recursive calls satisfy "+c.RecBound.Text, st, env.evalBool(c.RecBound.Expr), false)
		}
	} else if fn != nil && v.top != nil && fn == v.top && c.Decr == nil {
		unsup("recursive function %s has no decreases clause", c.Key)
	}
	// snapshot for old()
	oldHeap := map[string]*Term{}
	for k, h := range st.heap {
		oldHeap[k] = h
	}
	oldLW := st.lw()
	freshVars := map[*Term]bool{}
	pcBefore := len(st.pc)
	if !c.Pure {
		for _, m := range append(append([]string{}, c.Modifies...), c.Allocs...) {
			if i := indexOf(names, m); i >= 0 {
				// a pointer parameter: only that cell changes
				if pt, ok := tys[i].Underlying().(*types.Pointer); ok {
					cell := sortOf(pt.Elem())
					f := Fresh(m+"_cell", cell)
					freshVars[f] = true
					for _, t := range typeInv(f, pt.Elem(), 0) {
						st.assume(t)
					}
					st.setHeap(cell, Store(st.getHeap(cell), args[i], f))
					continue
				}
			}
			if cell, ref, et, ok := evalModTarget(env, m); ok {
				f := Fresh("cell", cell)
				freshVars[f] = true
				if et != nil {
					for _, t := range typeInv(f, et, 0) {
						st.assume(t)
					}
				}
				st.setHeap(cell, Store(st.getHeap(cell), ref, f))
				continue
			}
			cell := v.cellSortByName(c.Pkg.Types, m)
			old := st.getHeap(cell)
			isAllocOnly := false
			for _, a := range c.Allocs {
				if a == m {
					isAllocOnly = true
				}
			}
			for _, a := range c.Modifies {
				if a == m {
					isAllocOnly = false
				}
			}
			if isAllocOnly {
				st.setHeap(cell, HeapExt(old, oldLW))
			} else {
				nh := Fresh(heapName(cell), heapSort(cell))
				freshVars[nh] = true
				st.setHeap(cell, nh)
			}
		}
		st.havocLW()
	}
	rs := v.bindResults(st, in, sig, nil)
	env.oldHeap = oldHeap
	env.oldLW = oldLW
	res := sig.Results()
	for i, n := range c.Results {
		if i < len(rs) {
			env.vars[n] = SVal{rs[i], res.At(i).Type()}
		}
	}
	for _, e := range c.Ensures {
		st.assume(env.evalBool(e.Expr))
	}
	for _, e := range c.GhostEnsures {
		st.assume(env.evalBool(e.Expr))
		v.assumeNote("history variable defined by contract of " + c.Key + ": " + e.Text)
	}
	// equations that pin a freshly havocked heap, cell or field to a term are turned into
	// assignments: the solver then sees updated terms instead of array/record equations
	v.propagateDefs(st, freshVars, pcBefore)
	// a result the contract pins to a term (r == t) is replaced by that term, so that
	// structured values (e.g. literal ++ decimal strings) stay visible to the models
	for _, r := range rs {
		if r.Op != "var" {
			continue
		}
		for _, t := range st.pc {
			if t.Op == "=" && (t.Args[0] == r || t.Args[1] == r) {
				o := t.Args[0]
				if o == r {
					o = t.Args[1]
				}
				if !mentions(o, r) && (o.Sort == SString || o.ground) {
					st.substVar(r, o)
					break
				}
			}
		}
	}
	rs2 := rs[:0:0]
	for range rs {
		rs2 = append(rs2, nil)
	}
	if len(rs) == 1 {
		rs = []*Term{st.env[in]}
	} else if len(rs) > 1 {
		rs = st.env[in].Args
	}
	_ = rs2
	// references returned are allocated
	for i, r := range rs {
		for _, t := range st.refBound(r, res.At(i).Type(), 0) {
			st.assume(t)
		}
	}
	if c.Trusted {
		v.assumeNote("trusted contract: " + c.Key)
	}
	return true
}

func contractParams(c *Contract, fn *ssa.Function, sig *types.Signature) ([]string, []types.Type) {
	var names []string
	var tys []types.Type
	if fn != nil {
		for _, p := range fn.Params {
			names = append(names, p.Name())
			tys = append(tys, p.Type())
		}
		return names, tys
	}
	names = append(names, c.Params...)
	if sig.Recv() != nil {
		tys = append(tys, sig.Recv().Type())
	}
	for i := 0; i < sig.Params().Len(); i++ {
		tys = append(tys, sig.Params().At(i).Type())
	}
	return names, tys
}

func indexOf(xs []string, x string) int {
	for i, y := range xs {
		if y == x {
			return i
		}
	}
	return -1
}

// evalModTarget evaluates a modifies item as an expression denoting one heap
// cell: a pointer (its pointee) or a slice (its backing array).
func evalModTarget(env *SpecEnv, item string) (cell *Sort, ref *Term, elemT types.Type, ok bool) {
	if strings.HasPrefix(item, "[]") || strings.HasPrefix(item, "*") {
		return nil, nil, nil, false
	}
	// a captured variable of the closure under verification: the cell it lives in
	if env.fr != nil {
		now := renamesOf(env.v.P, env.fr.fn)[item]
		for i, fv := range env.fr.fn.FreeVars {
			if (fv.Name() == item || item == fmt.Sprintf("#%d", i) || (now != "" && fv.Name() == now)) && i < len(env.fr.bindings) {
				T := elemType(fv.Type())
				return sortOf(T), env.fr.bindings[i], T, true
			}
		}
	}
	x, err := parseSpecExpr(item)
	if err != nil {
		return nil, nil, nil, false
	}
	defer func() {
		if r := recover(); r != nil {
			if os.Getenv("GOVC_DEBUG") != "" {
				fmt.Fprintln(os.Stderr, "evalModTarget:", item, r)
			}
			ok = false
		}
	}()
	v := env.eval(x)
	if v.Ty == nil {
		return nil, nil, nil, false
	}
	switch u := v.Ty.Underlying().(type) {
	case *types.Pointer:
		return sortOf(u.Elem()), v.T, u.Elem(), true
	case *types.Slice:
		return ArraySort(SInt, sortOf(u.Elem())), Sel(v.T, 0), nil, true
	case *types.Map:
		// a map variable: its one map object
		return mapSortOf(v.Ty), v.T, nil, true
	}
	return nil, nil, nil, false
}

// propagateDefs rewrites  V == t,  V.f == t,  V[r] == t,  V[r].f == t  (and their guarded forms
// c ==> ...) over variables V that this call just havocked into substitutions for V.
func (v *Verifier) propagateDefs(st *State, fresh map[*Term]bool, from int) {
	for round := 0; round < 64; round++ {
		changed := false
		if from > len(st.pc) {
			from = len(st.pc)
		}
		for _, t := range st.pc[from:] {
			var guard *Term
			eq := t
			if t.Op == "=>" && t.Args[1].Op == "=" {
				guard, eq = t.Args[0], t.Args[1]
			}
			if eq.Op != "=" {
				continue
			}
			for side := 0; side < 2; side++ {
				a, b := eq.Args[side], eq.Args[1-side]
				if guard != nil {
					a = underGuard(a, guard)
				}
				V, rebuildFn := defTarget(a, fresh)
				if V == nil || mentions(b, V) || (guard != nil && mentions(guard, V)) {
					continue
				}
				nv := Fresh(strings.TrimRight(V.Str, "0123456789!"), V.Sort)
				fresh[nv] = true
				val := b
				if guard != nil {
					val = Ite(guard, b, Subst(a, map[*Term]*Term{V: nv}))
				}
				st.substVarOpt(V, rebuildFn(nv, val), false)
				changed = true
				break
			}
			if changed {
				break
			}
		}
		if !changed {
			return
		}
	}
}

// defTarget recognises an access path rooted at a fresh variable and returns the variable and
// a function building "the variable with that path set to x" over a new base.
func defTarget(a *Term, fresh map[*Term]bool) (*Term, func(base, x *Term) *Term) {
	switch {
	case a.Op == "var" && fresh[a]:
		return a, func(base, x *Term) *Term { return x }
	case a.Op == "sel" && a.Args[0].Op == "var" && fresh[a.Args[0]]:
		i := a.Idx
		return a.Args[0], func(base, x *Term) *Term { return Upd(base, i, x) }
	case a.Op == "select" && a.Args[0].Op == "var" && fresh[a.Args[0]]:
		r := a.Args[1]
		if mentions(r, a.Args[0]) {
			return nil, nil
		}
		return a.Args[0], func(base, x *Term) *Term { return Store(base, r, x) }
	case a.Op == "sel" && a.Args[0].Op == "select" && a.Args[0].Args[0].Op == "var" && fresh[a.Args[0].Args[0]]:
		i := a.Idx
		r := a.Args[0].Args[1]
		V := a.Args[0].Args[0]
		if mentions(r, V) {
			return nil, nil
		}
		return V, func(base, x *Term) *Term { return Store(base, r, Upd(Select(base, r), i, x)) }
	}
	return nil, nil
}

// underGuard simplifies ite(c, x, y) when c is the guard or its negation (also below selectors).
func underGuard(a, guard *Term) *Term {
	switch a.Op {
	case "ite":
		if a.Args[0] == guard {
			return underGuard(a.Args[1], guard)
		}
		if a.Args[0] == Not(guard) {
			return underGuard(a.Args[2], guard)
		}
	case "sel":
		x := underGuard(a.Args[0], guard)
		if x != a.Args[0] {
			return Sel(x, a.Idx)
		}
	}
	return a
}

// inlineStd: iterator adapters of the standard library that are plain Go over their arguments.
func inlineStd(fn *ssa.Function) bool {
	k := funcKey(fn)
	for _, p := range []string{"maps.Keys", "maps.Values", "slices.Collect", "slices.AppendSeq", "slices.Values"} {
		if k == p || strings.HasPrefix(k, p+"$") {
			return true
		}
	}
	return false
}
