package main

import (
	"os"
	"fmt"
	"go/types"

	"golang.org/x/tools/go/ssa"
)

// ---- Go-side value wrappers ----

type pathElem struct {
	field int   // >= 0: struct field; -1: array index
	index *Term // when field == -1
}

// locInfo is an (interior) pointer: a heap cell plus a path into its content.
type locInfo struct {
	cell *Sort // sort of the heap cell content
	ref  *Term
	path []pathElem
}

type iterInfo struct {
	entries []mapEntry
	pos     int
	known   bool
	mapRef  *Term
	str     *Term
	// maps of unknown contents: the keys handed out so far, the key of the current iteration, creation order
	visited *Term
	count   *Term // keys handed out so far
	curKey  *Term
	msort   *Sort
	seq     int
}

var iterSeq int

type mapEntry struct{ k, v *Term }

func mkLoc(cell *Sort, ref *Term, path []pathElem) *Term {
	if len(path) == 0 {
		return ref
	}
	return intern(&Term{Op: "loc", Sort: SInt, Extra: &locInfo{cell: cell, ref: ref, path: path}})
}

func mkTuple(args ...*Term) *Term {
	return intern(&Term{Op: "tuple", Sort: SNone, Args: args, Extra: "tuple"})
}

// closure table: function values are Int ids.
type closureInfo struct {
	fn       *ssa.Function
	bindings []*Term
}

var (
	closures     = map[int64]*closureInfo{}
	closureByFn  = map[*ssa.Function]int64{}
	closureNext  = int64(1 << 40)
	typeTags     = map[string]int64{}
	typeTagTypes = map[int64]types.Type{}
	typeTagNext  = int64(1)
)

func closureID(fn *ssa.Function, bindings []*Term) *Term {
	if len(bindings) == 0 {
		if id, ok := closureByFn[fn]; ok {
			return IntLit(id)
		}
	}
	closureNext++
	id := closureNext
	closures[id] = &closureInfo{fn: fn, bindings: bindings}
	if len(bindings) == 0 {
		closureByFn[fn] = id
	}
	return IntLit(id)
}

func typeTag(t types.Type) int64 {
	k := typeKey(t)
	if id, ok := typeTags[k]; ok {
		return id
	}
	id := typeTagNext
	typeTagNext++
	typeTags[k] = id
	typeTagTypes[id] = t
	return id
}

// ---- map objects ----

var (
	mapKnown = map[*Term][]mapEntry{}
	mapSorts = map[string]*Sort{}
)

func mapObjSort(k, v *Sort) *Sort {
	name := "Map_" + sanitize(k.Name) + "_" + sanitize(v.Name)
	if s, ok := mapSorts[name]; ok {
		return s
	}
	s := NewDT(name, []SortField{
		{Go: "dom", Sort: ArraySort(k, SBool)},
		{Go: "val", Sort: ArraySort(k, v)},
		{Go: "card", Sort: SInt},
	})
	mapSorts[name] = s
	return s
}

func mapSortOf(t types.Type) *Sort {
	m := t.Underlying().(*types.Map)
	return mapObjSort(sortOf(m.Key()), sortOf(m.Elem()))
}

func mapEmpty(s *Sort) *Term {
	o := Mk(s, ConstArr(s.Fields[0].Sort, TFalse), ConstArr(s.Fields[1].Sort, zeroTerm(s.Fields[1].Sort.Elem)), IntLit(0))
	mapKnown[o] = []mapEntry{}
	return o
}

func mapUpdate(o, k, v *Term) *Term {
	dom, val, card := Sel(o, 0), Sel(o, 1), Sel(o, 2)
	had := Select(dom, k)
	n := Mk(o.Sort, Store(dom, k, TTrue), Store(val, k, v), Ite(had, card, Add(card, IntLit(1))))
	if es, ok := mapKnown[o]; ok {
		// keep knowledge only if key identity is decidable against all entries
		decid := true
		var out []mapEntry
		replaced := false
		for _, e := range es {
			eq := Eq(e.k, k)
			switch {
			case eq.IsTrue():
				out = append(out, mapEntry{k, v})
				replaced = true
			case eq.IsFalse():
				out = append(out, e)
			default:
				decid = false
			}
		}
		if decid {
			if !replaced {
				out = append(out, mapEntry{k, v})
			}
			mapKnown[n] = out
		}
	}
	return n
}

// ---- symbolic state ----

type cutInfo struct {
	phis     map[*ssa.Phi]*Term
	heap     map[string]*Term
	nAlloc   int
	lwAt     *Term
	measure  *Term
	spec     *LoopSpec
	ordinal  int
	pcLen    int
	modifies map[string]bool
}

type Frame struct {
	fn       *ssa.Function
	block    *ssa.BasicBlock
	prev     *ssa.BasicBlock
	idx      int
	call     ssa.Value // call instruction in the caller (nil for the top frame)
	visits   map[int]int
	cuts     map[int]*cutInfo
	bindings []*Term
	label    string
	// map-range summarisation barrier
	barrier *mapBarrier
	deferd  bool
	defersExternalOnly bool
	named   map[string]namedVal // source-level names (from DebugRef), copy-on-write
}

type namedVal struct {
	t  *Term
	ty types.Type
}

func setNamed(m map[string]namedVal, k string, t *Term, ty types.Type) map[string]namedVal {
	n := make(map[string]namedVal, len(m)+1)
	for a, b := range m {
		n[a] = b
	}
	n[k] = namedVal{t, ty}
	return n
}

type mapBarrier struct {
	header  *ssa.BasicBlock
	onBack  func(st *State)
	heapAt  map[string]*Term
	nAlloc  int
	iterKey ssa.Value
}

type State struct {
	fvLinked map[int64]bool // function values whose contract has been stated as a fact on this path
	pc      []*Term
	env     map[ssa.Value]*Term
	heap    map[string]*Term
	lwBase  *Term
	lwOff   int64
	allocd  []*Term
	frames  []*Frame
	iters   map[ssa.Value]*iterInfo
	initMod bool
	dead    bool
	idx     []*Term // index terms read on this path (instantiation candidates)
	lastCut int
	pcSet   map[*Term]bool
}

func newState() *State {
	return &State{env: map[ssa.Value]*Term{}, heap: map[string]*Term{}, lwBase: IntLit(0), iters: map[ssa.Value]*iterInfo{}}
}

func (s *State) clone() *State {
	n := &State{
		pc:      append([]*Term(nil), s.pc...),
		env:     make(map[ssa.Value]*Term, len(s.env)),
		heap:    make(map[string]*Term, len(s.heap)),
		lwBase:  s.lwBase,
		lwOff:   s.lwOff,
		allocd:  append([]*Term(nil), s.allocd...),
		iters:   make(map[ssa.Value]*iterInfo, len(s.iters)),
		initMod: s.initMod,
		fvLinked: copyBoolMap(s.fvLinked),
		idx:     append([]*Term(nil), s.idx...),
		lastCut: s.lastCut,
	}
	for k, v := range s.env {
		n.env[k] = v
	}
	for k, v := range s.heap {
		n.heap[k] = v
	}
	for k, v := range s.iters {
		c := *v
		n.iters[k] = &c
	}
	n.frames = make([]*Frame, len(s.frames))
	for i, f := range s.frames {
		c := *f
		c.visits = make(map[int]int, len(f.visits))
		for k, v := range f.visits {
			c.visits[k] = v
		}
		c.cuts = make(map[int]*cutInfo, len(f.cuts))
		for k, v := range f.cuts {
			c.cuts[k] = v
		}
		n.frames[i] = &c
	}
	return n
}

func (s *State) top() *Frame { return s.frames[len(s.frames)-1] }

func (s *State) assume(t *Term) {
	if t.IsTrue() {
		return
	}
	if t.Op == "and" {
		for _, a := range t.Args {
			s.assume(a)
		}
		return
	}
	if s.pcSet == nil {
		s.pcSet = make(map[*Term]bool, len(s.pc)+16)
		for _, x := range s.pc {
			s.pcSet[x] = true
		}
	}
	if s.pcSet[t] {
		return
	}
	s.pcSet[t] = true
	s.pc = append(s.pc, t)
}

// substVar replaces a variable by a ground value everywhere in the state.
func (s *State) substVar(v, g *Term) { s.substVarOpt(v, g, true) }

func (s *State) substVarOpt(v, g *Term, keep bool) {
	m := map[*Term]*Term{v: g}
	for k, t := range s.env {
		if t.Extra == nil {
			s.env[k] = Subst(t, m)
		} else if t.Op == "tuple" {
			args := make([]*Term, len(t.Args))
			for i, a := range t.Args {
				args[i] = Subst(a, m)
			}
			s.env[k] = mkTuple(args...)
		} else if li, ok := t.Extra.(*locInfo); ok {
			np := make([]pathElem, len(li.path))
			for i, pe := range li.path {
				np[i] = pe
				if pe.index != nil {
					np[i].index = Subst(pe.index, m)
				}
			}
			s.env[k] = mkLoc(li.cell, Subst(li.ref, m), np)
		}
	}
	for k, h := range s.heap {
		s.heap[k] = Subst(h, m)
	}
	for i, t := range s.pc {
		s.pc[i] = Subst(t, m)
	}
	var pc []*Term
	for _, t := range s.pc {
		if !t.IsTrue() {
			pc = append(pc, t)
		}
	}
	// keep the binding itself so that obligations still mention the parameter
	if keep {
		pc = append(pc, mk("=", SBool, v, g))
	}
	s.pc = pc
	s.pcSet = nil
	for _, f := range s.frames {
		for i, b := range f.bindings {
			f.bindings[i] = Subst(b, m)
		}
	}
}

func (s *State) noteIndex(i *Term) {
	if i.IsLit() {
		return
	}
	for _, x := range s.idx {
		if x == i {
			return
		}
	}
	if len(s.idx) < 12 {
		s.idx = append(s.idx, i)
	}
}

// instances: quantified facts of the path condition instantiated at the index
// terms read on the path (a cheap, sound substitute for solver-side matching).
func (s *State) instances(extra []*Term) []*Term {
	cands := append(append([]*Term(nil), s.idx...), extra...)
	return instancesOf(s.pc, cands)
}

// instancesOf instantiates the quantified facts among pc at the candidate terms.
// triggersOf: the smallest select/application subterms of body that mention the bound variable.
func triggersOf(body, bv *Term) []*Term {
	var out []*Term
	seen := map[*Term]bool{}
	var rec func(x *Term) bool // reports whether x mentions bv
	rec = func(x *Term) bool {
		if x == bv {
			return true
		}
		if !x.open || seen[x] {
			return false
		}
		seen[x] = true
		inner := false
		for _, a := range x.Args {
			if rec(a) {
				inner = true
			}
		}
		if !inner {
			return false
		}
		if x.Op == "select" || x.Op == "app" {
			// keep only minimal ones: drop if an argument subtree already produced a trigger
			minimal := true
			for _, t := range out {
				if mentions(x, t) {
					minimal = false
					break
				}
			}
			if minimal && !hasOtherBVar(x, bv) {
				// for an array read the index alone is the trigger: the array may since have been updated
				if x.Op == "select" && !mentions(x.Args[0], bv) {
					out = append(out, x.Args[1])
				} else {
					out = append(out, x)
				}
			}
		}
		return true
	}
	rec(body)
	return out
}

func hasOtherBVar(x, bv *Term) bool {
	if x.Op == "bvar" && x != bv {
		return true
	}
	if !x.open {
		return false
	}
	for _, a := range x.Args {
		if hasOtherBVar(a, bv) {
			return true
		}
	}
	return false
}

var occurring map[*Term]bool
var boundedApps map[*Term]bool

func instancesOf(pcIn []*Term, cands []*Term) []*Term {
	return instancesOfGoal(pcIn, cands, nil)
}

// instancesOfGoal instantiates the quantified facts among pc at those candidate terms for which
// some trigger of the fact, so instantiated, already occurs in the facts or the goal.
func instancesOfGoal(pcIn []*Term, cands []*Term, goal *Term) []*Term {
	s := &State{pc: pcIn}
	if len(cands) == 0 {
		return nil
	}
	occ := map[*Term]bool{}
	var mark func(x *Term)
	mark = func(x *Term) {
		if occ[x] {
			return
		}
		occ[x] = true
		for _, a := range x.Args {
			mark(a)
		}
	}
	for _, t := range pcIn {
		mark(t)
	}
	if goal != nil {
		mark(goal)
	}
	occurring = occ
	// a specification-function value the path bounds directly (0 <= f(x), f(x) < n) is an index in its own right
	bnd := map[*Term]bool{}
	for _, t := range pcIn {
		if (t.Op == "<" || t.Op == "<=") && len(t.Args) == 2 {
			for _, a := range t.Args {
				if a.Op == "app" && a.Sort == SInt && !a.open {
					bnd[a] = true
				}
			}
		}
	}
	boundedApps = bnd
	defer func() { occurring = nil; boundedApps = nil }()
	var out []*Term
	seen := map[*Term]bool{}
	var visit func(t *Term)
	visit = func(t *Term) {
		if t.Op == "forall" && len(t.Bound) == 1 && !t.open {
			for _, c := range cands {
				if c.Sort != t.Bound[0].Sort {
					continue
				}
				vs := []*Term{c}
				if c.Sort == SInt {
					vs = append(vs, Sub(c, IntLit(1)))
				}
				trig := triggersOf(t.Args[0], t.Bound[0])
				for _, cand := range vs {
					if !triggered(trig, t.Bound[0], cand) {
						continue
					}
					inst := Subst(t.Args[0], map[*Term]*Term{t.Bound[0]: cand})
					if os.Getenv("GOVC_DEBUG") == "3" {
						fmt.Fprintf(os.Stderr, "   visit-forall cand=%s true=%v seen=%v open=%v\n", truncate(cand.String(), 30), inst.IsTrue(), seen[inst], inst.open)
					}
					if !inst.IsTrue() && !seen[inst] && !inst.open {
						seen[inst] = true
						out = append(out, inst)
					}
				}
			}
			return
		}
		if t.Op == "and" {
			for _, a := range t.Args {
				visit(a)
			}
		}
		if t.Op == "or" {
			// instances under each disjunct, recombined as a disjunction
			var ds []*Term
			useful := false
			for _, a := range t.Args {
				saved := out
				out = nil
				visit(a)
				if len(out) > 0 {
					useful = true
				}
				ds = append(ds, And(append([]*Term{}, out...)...))
				out = saved
			}
			if useful {
				inst := Or(ds...)
				if !inst.IsTrue() && !seen[inst] {
					seen[inst] = true
					out = append(out, inst)
				}
			}
		}
		if t.Op == "=>" {
			// guarded fact: guard => (... forall ...): the instances of the consequent, under the guard
			saved := out
			out = nil
			visit(t.Args[1])
			got := out
			out = saved
			for _, i := range got {
				delete(seen, i) // emitted under the guard only
				inst := Implies(t.Args[0], i)
				if !inst.IsTrue() && !seen[inst] && !inst.open {
					seen[inst] = true
					out = append(out, inst)
				}
			}
		}
	}
	for _, t := range s.pc {
		visit(t)
	}
	// terms that first appear in an instance can trigger further facts: one more pass over the hypotheses with
	// the instances' terms counted as occurring
	if len(out) > 0 {
		for _, t := range out {
			mark(t)
		}
		for _, t := range s.pc {
			visit(t)
		}
	}
	// integer-valued applications that first appear in the instances (a permutation applied to a skolem index, say)
	// are instantiation candidates in their turn, once
	{
		var extra []*Term
		seenC := map[*Term]bool{}
		for _, c := range cands {
			seenC[c] = true
		}
		var rec func(x *Term)
		rec = func(x *Term) {
			if len(extra) >= 8 || x.open {
				return
			}
			if x.Op == "app" && x.Sort == SInt && !occ[x] && !seenC[x] && !x.ground && x.Str != "go_div" && x.Str != "go_rem" && !definedFuncs[x.Str] {
				seenC[x] = true
				extra = append(extra, x)
			}
			for _, a := range x.Args {
				rec(a)
			}
		}
		for _, t := range out {
			rec(t)
		}
		if len(extra) > 0 {
			for _, x := range extra {
				mark(x)
			}
			savedC := cands
			cands = extra
			for _, t := range s.pc {
				visit(t)
			}
			cands = savedC
		}
	}
	// an instance  g => (A and B and ...)  is kept as separate implications, so that a quantified conjunct does not
	// take the quantifier-free ones with it when quantified facts are left out of a query
	{
		var split []*Term
		var sp func(guards []*Term, t *Term)
		sp = func(guards []*Term, t *Term) {
			switch {
			case t.Op == "and":
				for _, a := range t.Args {
					sp(guards, a)
				}
			case t.Op == "=>" && (t.Args[1].Op == "and" || t.Args[1].Op == "=>"):
				sp(append(append([]*Term{}, guards...), t.Args[0]), t.Args[1])
			default:
				u := t
				if len(guards) > 0 {
					u = Implies(And(guards...), t)
				}
				if !u.IsTrue() && !seen[u] {
					seen[u] = true
					split = append(split, u)
				}
			}
		}
		for _, t := range out {
			delete(seen, t)
			sp(nil, t)
		}
		out = split
	}
	// instances are read under the literals the path establishes outright (ite(dom[k], a, b) collapses where
	// dom[k] is a hypothesis), so that their own quantifiers meet the goal's terms
	known := knownFacts(pcIn)
	if len(known) > 0 {
		for i, t := range out {
			if u := Subst(t, known); !u.IsTrue() {
				out[i] = u
			}
		}
	}
	// one more round: quantifiers nested inside the instances just produced
	first := append([]*Term(nil), out...)
	for _, t := range first {
		if os.Getenv("GOVC_DEBUG") == "3" {
			fmt.Fprintf(os.Stderr, "   nested-round on (%s open=%v): %s\n", t.Op, t.open, truncate(t.String(), 100))
		}
		var inner func(x *Term, guards []*Term)
		inner = func(x *Term, guards []*Term) {
			switch x.Op {
			case "forall":
				if len(guards) == 0 {
					visit(x)
				} else {
					visit(Implies(And(guards...), x))
				}
			case "and":
				for _, a := range x.Args {
					inner(a, guards)
				}
			case "=>":
				inner(x.Args[1], append(append([]*Term{}, guards...), x.Args[0]))
			}
		}
		inner(t, nil)
	}
	return out
}

// triggered: some trigger, instantiated at cand, is a term that already occurs.
func triggered(trig []*Term, bv, cand *Term) bool {
	if occurring == nil || cand.Sort.Kind == KDT {
		return true
	}
	if len(trig) == 0 || boundedApps[cand] {
		return true
	}
	for _, t := range trig {
		if occurring[Subst(t, map[*Term]*Term{bv: cand})] {
			return true
		}
	}
	if os.Getenv("GOVC_DEBUG") == "3" {
		for _, t := range trig {
			fmt.Fprintf(os.Stderr, "   untriggered at %s: %s\n", truncate(cand.String(), 40), truncate(Subst(t, map[*Term]*Term{bv: cand}).String(), 300))
		}
	}
	return false
}

func (s *State) lw() *Term { return Sub(s.lwBase, IntLit(s.lwOff)) }

func (s *State) freshRef() *Term {
	if s.initMod {
		initNext++
		r := IntLit(initNext)
		s.allocd = append(s.allocd, r)
		return r
	}
	s.lwOff++
	r := s.lw()
	s.allocd = append(s.allocd, r)
	return r
}

// havocLW models allocation by unknown code.
func (s *State) havocLW() {
	old := s.lw()
	n := Fresh("lw", SInt)
	s.assume(Le(n, old))
	s.lwBase = n
	s.lwOff = 0
}

var heapSorts = map[string]*Sort{} // heap name -> cell sort

func (s *State) getHeap(cell *Sort) *Term {
	n := heapName(cell)
	if h, ok := s.heap[n]; ok {
		return h
	}
	heapSorts[n] = cell
	var h *Term
	if s.initMod {
		h = ConstArr(heapSort(cell), zeroTerm(cell))
	} else {
		h = Var(n+"@0", heapSort(cell))
	}
	s.heap[n] = h
	return h
}

func (s *State) setHeap(cell *Sort, h *Term) {
	n := heapName(cell)
	heapSorts[n] = cell
	s.heap[n] = h
}

func (s *State) alloc(cell *Sort, init *Term) *Term {
	r := s.freshRef()
	s.setHeap(cell, Store(s.getHeap(cell), r, init))
	return r
}

// load reads through a location.
func (s *State) load(loc *Term, cell *Sort) *Term {
	if li, ok := loc.Extra.(*locInfo); ok {
		v := Select(s.getHeap(li.cell), li.ref)
		for _, p := range li.path {
			if p.field >= 0 {
				v = Sel(v, p.field)
			} else {
				v = Select(v, p.index)
			}
		}
		return v
	}
	return Select(s.getHeap(cell), loc)
}

func (s *State) store(loc *Term, cell *Sort, x *Term) {
	if li, ok := loc.Extra.(*locInfo); ok {
		h := s.getHeap(li.cell)
		old := Select(h, li.ref)
		s.setHeap(li.cell, Store(h, li.ref, updPath(old, li.path, x)))
		return
	}
	s.setHeap(cell, Store(s.getHeap(cell), loc, x))
}

func updPath(old *Term, path []pathElem, x *Term) *Term {
	if len(path) == 0 {
		return x
	}
	p := path[0]
	if p.field >= 0 {
		return Upd(old, p.field, updPath(Sel(old, p.field), path[1:], x))
	}
	return Store(old, p.index, updPath(Select(old, p.index), path[1:], x))
}

func extendLoc(ptr *Term, cell *Sort, pe pathElem) *Term {
	if li, ok := ptr.Extra.(*locInfo); ok {
		np := append(append([]pathElem{}, li.path...), pe)
		return mkLoc(li.cell, li.ref, np)
	}
	return mkLoc(cell, ptr, []pathElem{pe})
}

// typeInv yields the invariants every value of Go type T satisfies.
func typeInv(v *Term, T types.Type, depth int) []*Term {
	var out []*Term
	switch u := T.Underlying().(type) {
	case *types.Basic:
		if u.Info()&types.IsInteger != 0 {
			if bits, signed, ok := intWidth(T); ok {
				if signed {
					out = append(out, Ge(v, IntLit(-(1 << (bits - 1)))), Lt(v, IntLit(1<<(bits-1))))
				} else {
					out = append(out, Ge(v, IntLit(0)), Lt(v, IntLit(1<<bits)))
				}
			} else if u.Info()&types.IsUnsigned != 0 {
				out = append(out, Ge(v, IntLit(0)))
			}
		}
	case *types.Slice:
		out = append(out, Ge(Sel(v, 2), IntLit(0)), Ge(Sel(v, 1), IntLit(0)),
			Implies(Eq(Sel(v, 0), IntLit(0)), Eq(Sel(v, 2), IntLit(0))))
	case *types.Interface:
		out = append(out, Ge(Sel(v, 0), IntLit(0)), Implies(Eq(Sel(v, 0), IntLit(0)), Eq(Sel(v, 1), IntLit(0))))
	case *types.Struct:
		if depth > 3 {
			break
		}
		for i := 0; i < u.NumFields(); i++ {
			out = append(out, typeInv(Sel(v, i), u.Field(i).Type(), depth+1)...)
		}
	}
	return out
}

// refBound: references held in values are already allocated.
func (s *State) refBound(v *Term, T types.Type, depth int) []*Term {
	var out []*Term
	switch u := T.Underlying().(type) {
	case *types.Pointer, *types.Map:
		if !v.IsLit() {
			if preState(v) {
				nonNegRef[v] = true
				out = append(out, Ge(v, IntLit(0)))
			} else {
				out = append(out, Ge(v, s.lw()))
			}
		}
	case *types.Slice:
		if preState(v) {
			nonNegRef[Sel(v, 0)] = true
			out = append(out, Ge(Sel(v, 0), IntLit(0)))
		} else {
			out = append(out, Ge(Sel(v, 0), s.lw()))
		}
	case *types.Struct:
		if depth > 3 {
			break
		}
		for i := 0; i < u.NumFields(); i++ {
			out = append(out, s.refBound(Sel(v, i), u.Field(i).Type(), depth+1)...)
		}
	}
	return out
}

type unsupported struct{ msg string }

func (u unsupported) Error() string { return u.msg }

func unsup(format string, a ...any) {
	panic(unsupported{fmt.Sprintf(format, a...)})
}

func copyBoolMap(m map[int64]bool) map[int64]bool {
	if m == nil {
		return nil
	}
	n := make(map[int64]bool, len(m))
	for k, v := range m {
		n[k] = v
	}
	return n
}
