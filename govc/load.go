package main

import (
	"go/token"
	"fmt"
	"go/ast"
	"go/types"
	"os"
	"path/filepath"
	"sort"
	"strings"

	"golang.org/x/tools/go/packages"
	"golang.org/x/tools/go/ssa"
	"golang.org/x/tools/go/ssa/ssautil"
)

const modulePath = "github.com/berquerant/crd"

type Program struct {
	RepoDir string
	Pkgs    []*packages.Package
	Prog    *ssa.Program
	SSAPkgs map[string]*ssa.Package // by package path
	ByPath  map[string]*packages.Package
	// functions by key "pkgname.Func" / "pkgname.Type.Method"
	Funcs     map[string][]*ssa.Function
	Contracts map[string]*Contract // by key
	Macros    map[string]*Macro
	Order     []string             // repo package paths in dependency order
}

func inRepo(p *types.Package) bool {
	return p != nil && (p.Path() == modulePath || strings.HasPrefix(p.Path(), modulePath+"/"))
}

func loadProgram(repo string) (*Program, error) {
	os.Setenv("GOFLAGS", "-mod=mod")
	os.Setenv("GOPROXY", "off")
	cfg := &packages.Config{
		Mode:       packages.LoadAllSyntax,
		Dir:        repo,
		BuildFlags: []string{"-tags=verif"},
		Env:        os.Environ(),
	}
	pkgs, err := packages.Load(cfg, "./...")
	if err != nil {
		return nil, err
	}
	var errs []string
	packages.Visit(pkgs, nil, func(p *packages.Package) {
		if inRepoPath(p.PkgPath) {
			for _, e := range p.Errors {
				errs = append(errs, e.Error())
			}
		}
	})
	if len(errs) > 0 {
		return nil, fmt.Errorf("load errors: %s", strings.Join(errs, "; "))
	}
	prog, _ := ssautil.AllPackages(pkgs, ssa.InstantiateGenerics|ssa.GlobalDebug)
	prog.Build()
	P := &Program{RepoDir: repo, Pkgs: pkgs, Prog: prog, SSAPkgs: map[string]*ssa.Package{},
		ByPath: map[string]*packages.Package{}, Funcs: map[string][]*ssa.Function{}, Contracts: map[string]*Contract{}, Macros: map[string]*Macro{}}
	for _, p := range prog.AllPackages() {
		P.SSAPkgs[p.Pkg.Path()] = p
	}
	packages.Visit(pkgs, nil, func(p *packages.Package) {
		P.ByPath[p.PkgPath] = p
	})
	// dependency order of repo packages
	seen := map[string]bool{}
	var visit func(p *packages.Package)
	visit = func(p *packages.Package) {
		if seen[p.PkgPath] {
			return
		}
		seen[p.PkgPath] = true
		var imps []string
		for k := range p.Imports {
			imps = append(imps, k)
		}
		sort.Strings(imps)
		for _, k := range imps {
			visit(p.Imports[k])
		}
		if inRepoPath(p.PkgPath) {
			P.Order = append(P.Order, p.PkgPath)
		}
	}
	sort.Slice(pkgs, func(i, j int) bool { return pkgs[i].PkgPath < pkgs[j].PkgPath })
	for _, p := range pkgs {
		visit(p)
	}
	for _, path := range P.Order {
		indexClosureLabels(P.ByPath[path].Syntax)
	}
	// index functions
	indexFuncs := func() {
		P.Funcs = map[string][]*ssa.Function{}
		for fn := range ssautil.AllFunctions(prog) {
			k := funcKey(fn)
			if k != "" {
				P.Funcs[k] = append(P.Funcs[k], fn)
			}
		}
		for k := range P.Funcs {
			fs := P.Funcs[k]
			sort.Slice(fs, func(i, j int) bool { return fs[i].String() < fs[j].String() })
		}
	}
	indexFuncs()
	// contracts
	for _, path := range P.Order {
		p := P.ByPath[path]
		for i, f := range p.Syntax {
			name := p.CompiledGoFiles[i]
			if strings.HasPrefix(filepath.Base(name), "verif_") {
				if err := parseContractFile(P, p, f, name); err != nil {
					return nil, err
				}
			}
		}
	}
	if findFuncRenames(P) {
		indexFuncs()
	}
	return P, nil
}

func inRepoPath(p string) bool { return p == modulePath || strings.HasPrefix(p, modulePath+"/") }

// funcKey: "pkg.Func", "pkg.Type.Method", closures "pkg.Func$1". Generic
// instances map to their origin's key. Synthetic wrappers get "".
func funcKey(fn *ssa.Function) string {
	if fn.Synthetic != "" && fn.Origin() == nil && !strings.HasPrefix(fn.Synthetic, "package init") {
		if fn.Parent() == nil {
			return ""
		}
	}
	o := fn
	if fn.Origin() != nil {
		o = fn.Origin()
	}
	if o.Parent() != nil {
		pk := funcKey(o.Parent())
		if pk == "" {
			return ""
		}
		if lbl := closureLabel(o); lbl != "" {
			return pk + "$" + lbl
		}
		return pk + strings.TrimPrefix(o.Name(), o.Parent().Name())
	}
	pkg := o.Pkg
	if pkg == nil {
		if o.Object() != nil && o.Object().Pkg() != nil {
			pkgName := o.Object().Pkg().Name()
			return pkgName + "." + recvPrefix(o) + o.Name()
		}
		return ""
	}
	k := pkg.Pkg.Name() + "." + recvPrefix(o) + o.Name()
	if was, ok := funcRenamed[k]; ok {
		return was // a function under contract that was renamed keeps the key its contract uses (names.go)
	}
	return k
}

func recvPrefix(fn *ssa.Function) string {
	sig := fn.Signature
	if sig.Recv() == nil {
		return ""
	}
	t := sig.Recv().Type()
	if p, ok := t.(*types.Pointer); ok {
		t = p.Elem()
	}
	if n, ok := t.(*types.Named); ok {
		return n.Obj().Name() + "."
	}
	return ""
}

// docPos helps error messages.
func posStr(P *Program, n ast.Node) string {
	return P.Prog.Fset.Position(n.Pos()).String()
}

// closureLabels names function literals after what they are bound to: "x" for  x := func...,  "V.Field" for a
// field of a package-level variable's composite literal, "Field" for a field elsewhere. Literals bound to nothing
// keep their ordinal. A label used twice under one parent is dropped (ordinals again).
var closureLabels = map[token.Pos]string{}

func closureLabel(fn *ssa.Function) string {
	if lit, ok := fn.Syntax().(*ast.FuncLit); ok {
		return closureLabels[lit.Pos()]
	}
	return ""
}

func indexClosureLabels(files []*ast.File) {
	for _, f := range files {
		for _, d := range f.Decls {
			switch d := d.(type) {
			case *ast.GenDecl:
				for _, sp := range d.Specs {
					if vs, ok := sp.(*ast.ValueSpec); ok && len(vs.Names) == 1 {
						for _, val := range vs.Values {
							labelClosures(val, vs.Names[0].Name+".")
						}
					}
				}
			case *ast.FuncDecl:
				if d.Body != nil {
					labelClosures(d.Body, "")
				}
			}
		}
	}
}

func labelClosures(root ast.Node, prefix string) {
	used := map[string]int{}
	var pend []struct {
		pos token.Pos
		l   string
	}
	var walk func(n ast.Node, prefix string)
	walk = func(n ast.Node, prefix string) {
		ast.Inspect(n, func(x ast.Node) bool {
			switch x := x.(type) {
			case *ast.AssignStmt:
				if len(x.Lhs) == 1 && len(x.Rhs) == 1 {
					if id, ok := x.Lhs[0].(*ast.Ident); ok {
						if lit, ok := x.Rhs[0].(*ast.FuncLit); ok {
							pend = append(pend, struct {
								pos token.Pos
								l   string
							}{lit.Pos(), id.Name})
							used[id.Name]++
							labelClosures(lit.Body, "")
							return false
						}
					}
				}
			case *ast.KeyValueExpr:
				if id, ok := x.Key.(*ast.Ident); ok {
					if lit, ok := x.Value.(*ast.FuncLit); ok {
						pend = append(pend, struct {
							pos token.Pos
							l   string
						}{lit.Pos(), prefix + id.Name})
						used[prefix+id.Name]++
						labelClosures(lit.Body, "")
						return false
					}
				}
			case *ast.FuncLit:
				// unnamed literal: its own closures are labelled relative to it
				labelClosures(x.Body, "")
				return false
			}
			return true
		})
	}
	walk(root, prefix)
	for _, p := range pend {
		if used[p.l] == 1 {
			closureLabels[p.pos] = p.l
		}
	}
}
