package main

// Models of functions outside berquerant/crd. Each model is an assumed
// contract (listed in the evidence); concrete arguments are folded through
// the real library.

import (
	"os"
	"fmt"
	"regexp"
	"strconv"
	"strings"
	"unicode"

	"golang.org/x/tools/go/ssa"
)

const errTag = 900001

var (
	errWraps   = map[*Term][]*Term{} // error value -> wrapped error values
	errLeaf    = map[*Term]bool{}    // errors that wrap nothing crd can name
	crdErrObjs = map[*Term]bool{}    // error objects created by crd via errors.New
	regexPats  = map[int64]string{}
	regexNext  = int64(1 << 41)
	fmtIDs     = map[string]int{}
)

func errorsIs(e, t *Term) *Term {
	if e == t {
		return Neq(e, zeroTerm(SIface))
	}
	if e.Op == "mk" && e.Args[0].IsInt() && e.Args[0].Int.Sign() == 0 {
		return TFalse
	}
	if e.Op == "ite" {
		return Ite(e.Args[0], errorsIs(e.Args[1], t), errorsIs(e.Args[2], t))
	}
	if ws, ok := errWraps[e]; ok {
		ds := []*Term{Eq(e, t)}
		for _, w := range ws {
			ds = append(ds, errorsIs(w, t))
		}
		return Or(ds...)
	}
	if errLeaf[e] {
		if crdErrObjs[t] {
			return Eq(e, t)
		}
		return Or(Eq(e, t), App("err_is", SBool, e, t))
	}
	if crdErrObjs[e] {
		return Eq(e, t)
	}
	if os.Getenv("GOVC_DEBUG") == "5" {
		fmt.Fprintf(os.Stderr, "errorsIs generic: e=%s t=%s wraps=%v leaf=%v\n", truncate(e.String(), 120), truncate(t.String(), 60), errWraps[e] != nil, errLeaf[e])
	}
	return Or(And(Eq(e, t), Neq(e, zeroTerm(SIface))), App("err_is", SBool, e, t))
}

func (v *Verifier) newError(st *State, what string) *Term {
	ref := st.freshRef()
	return Mk(SIface, IntLit(errTag), ref)
}

func freshError(st *State, name string) *Term {
	e := Fresh(name, SIface)
	st.assume(Gt(Sel(e, 0), IntLit(0)))
	// an error made by a library is none of the error objects crd makes with errors.New
	for obj := range crdErrObjs {
		st.assume(Neq(e, obj))
	}
	return e
}

func fmtID(f string) int {
	if id, ok := fmtIDs[f]; ok {
		return id
	}
	id := len(fmtIDs) + 1
	fmtIDs[f] = id
	return id
}

// sliceElems returns the elements of a slice with literal length.
func sliceElems(st *State, s *Term, es *Sort) ([]*Term, bool) {
	n := Sel(s, 2)
	if !n.IsInt() || n.Int64() > 64 {
		return nil, false
	}
	arr := Select(st.getHeap(ArraySort(SInt, es)), Sel(s, 0))
	var out []*Term
	for i := int64(0); i < n.Int64(); i++ {
		out = append(out, Select(arr, Add(Sel(s, 1), IntLit(i))))
	}
	return out, true
}

func (v *Verifier) mkSlice(st *State, es *Sort, elems []*Term) *Term {
	as := ArraySort(SInt, es)
	arr := zeroTerm(as)
	for i, e := range elems {
		arr = Store(arr, IntLit(int64(i)), e)
	}
	r := st.alloc(as, arr)
	return Mk(SSlice, r, IntLit(0), IntLit(int64(len(elems))))
}

func allLit(ts ...*Term) bool {
	for _, t := range ts {
		if !t.IsLit() {
			return false
		}
	}
	return true
}

func (v *Verifier) external(st *State, in *ssa.Call, fn *ssa.Function, args []*Term) bool {
	name := fn.String()
	if o := fn.Origin(); o != nil {
		name = o.String()
	}
	sig := fn.Signature
	set := func(ts ...*Term) bool {
		v.bindResults(st, in, sig, ts)
		return true
	}
	switch name {
	case "errors.New":
		e := v.newError(st, "errors.New")
		crdErrObjs[e] = true
		return set(e)
	case "fmt.Errorf":
		// fmt.Errorf(format, args...): non-nil; wraps the %w operands.
		e := v.newError(st, "fmt.Errorf")
		var ws []*Term
		if args[0].Op == "str" && strings.Contains(args[0].Str, "%w") {
			if elems, ok := sliceElems(st, args[1], SIface); ok {
				// the operands of the %w verbs (operands are boxed as any; error values keep their Iface)
				idx := 0
				f := args[0].Str
				for i := 0; i+1 < len(f); i++ {
					if f[i] != '%' {
						continue
					}
					i++
					if f[i] == '%' {
						continue
					}
					for i < len(f) && strings.ContainsRune("+-# 0123456789.", rune(f[i])) {
						i++
					}
					if i < len(f) {
						if f[i] == 'w' && idx < len(elems) {
							ws = append(ws, elems[idx])
						}
						idx++
					}
				}
			}
		}
		errWraps[e] = ws
		if os.Getenv("GOVC_DEBUG") == "5" {
			fmt.Fprintf(os.Stderr, "fmt.Errorf -> %s wraps %d\n", e.String(), len(ws))
		}
		return set(e)
	case "errors.Is":
		return set(errorsIs(args[0], args[1]))
	case "errors.Join":
		if elems, ok := sliceElems(st, args[0], SIface); ok {
			var anyNonNil []*Term
			for _, x := range elems {
				anyNonNil = append(anyNonNil, Neq(x, zeroTerm(SIface)))
			}
			e := Fresh("joined", SIface)
			st.assume(Eq(Neq(e, zeroTerm(SIface)), Or(anyNonNil...)))
			for _, c := range typeInv(e, sig.Results().At(0).Type(), 0) {
				st.assume(c)
			}
			return set(e)
		}
		// symbolic length: nil iff every element is nil
		e := Fresh("joined", SIface)
		s := args[0]
		arr := Select(st.getHeap(ArraySort(SInt, SIface)), Sel(s, 0))
		i := BVar("i$j", SInt)
		allNil := Forall([]*Term{i}, Implies(And(Le(IntLit(0), i), Lt(i, Sel(s, 2))), Eq(Select(arr, Add(Sel(s, 1), i)), zeroTerm(SIface))))
		st.assume(Eq(Eq(e, zeroTerm(SIface)), allNil))
		// the direction callers rely on, in a form the instantiation of hypotheses reaches
		st.assume(Implies(Eq(e, zeroTerm(SIface)), allNil))
		st.assume(Implies(Eq(e, zeroTerm(SIface)), Implies(Lt(IntLit(0), Sel(s, 2)), Eq(Select(arr, Sel(s, 1)), zeroTerm(SIface)))))
		for _, c := range typeInv(e, sig.Results().At(0).Type(), 0) {
			st.assume(c)
		}
		return set(e)
	case "fmt.Sprintf", "fmt.Sprint":
		if r, ok := v.sprintf(st, in, name == "fmt.Sprint", args); ok {
			return set(r)
		}
		r := Fresh("sprintf", SString)
		return set(r)
	case "strconv.ParseUint":
		s := args[0]
		if s.Op == "str" && args[1].IsInt() && args[2].IsInt() {
			u, err := strconv.ParseUint(s.Str, int(args[1].Int64()), int(args[2].Int64()))
			if err != nil {
				e := freshError(st, "parseuint_err")
				errLeaf[e] = true
				return set(IntLit(0), e)
			}
			return set(IntBig(newBigU(u)), zeroTerm(SIface))
		}
		if p, d, isDec := decString(s); isDec && args[1].IsInt() && args[1].Int64() == 10 {
			v.assumeNote("strconv.ParseUint on literal ++ decimal: decided structurally (canonical decimal of n < 2^64 parses to n; a non-digit prefix is a syntax error)")
			if p == "" {
				n := d.Args[0]
				inRange := And(Ge(n, IntLit(0)), Lt(n, IntBig(pow2(64))))
				e := freshError(st, "parseuint_err")
				errLeaf[e] = true
				return set(Ite(inRange, n, IntLit(0)), Ite(inRange, zeroTerm(SIface), e))
			}
			if !isDigits(p) {
				e := freshError(st, "parseuint_err")
				errLeaf[e] = true
				return set(IntLit(0), e)
			}
		}
		// the decimal 64-bit reading is a function of the text (named in the specification prelude); any other
		// base or width is a different function of the text, the base and the width
		ok := App("parse_uint_ok", SBool, s, args[1], args[2])
		val := App("parse_uint_val", SInt, s, args[1], args[2])
		if args[1].IsInt() && args[1].Int64() == 10 && args[2].IsInt() && args[2].Int64() == 64 {
			ok = App("parse10_ok", SBool, s)
			val = App("parse10_val", SInt, s)
		}
		st.assume(Implies(ok, And(Ge(val, IntLit(0)), Lt(val, IntBig(pow2(64))))))
		e := freshError(st, "parseuint_err")
		errLeaf[e] = true
		fv := Fresh("parseuint_fail", SInt)
		st.assume(Ge(fv, IntLit(0)))
		return set(Ite(ok, val, fv), Ite(ok, zeroTerm(SIface), e))
	case "strconv.Atoi":
		s := args[0]
		if s.Op == "str" {
			i, err := strconv.Atoi(s.Str)
			if err != nil {
				return set(IntLit(0), freshError(st, "atoi_err"))
			}
			return set(IntLit(int64(i)), zeroTerm(SIface))
		}
	case "strings.Contains":
		if allLit(args...) {
			return set(BoolLit(strings.Contains(args[0].Str, args[1].Str)))
		}
		if p, _, ok := decString(args[0]); ok && args[1].Op == "str" && !hasDigit(args[1].Str) {
			// prefix ++ dec(n): a digit-free needle can only occur inside the prefix (or be empty)
			v.assumeNote("strings.Contains on literal ++ decimal: decided structurally (decimal renderings contain only digits)")
			return set(BoolLit(strings.Contains(p, args[1].Str)))
		}
		return set(mk("str.contains", SBool, args[0], args[1]))
	case "strings.ContainsRune":
		if allLit(args...) {
			return set(BoolLit(strings.ContainsRune(args[0].Str, rune(args[1].Int64()))))
		}
		if args[0].Op == "str" {
			var ds []*Term
			for _, r := range args[0].Str {
				ds = append(ds, Eq(args[1], IntLit(int64(r))))
			}
			return set(Or(ds...))
		}
	case "strings.Trim":
		if allLit(args...) {
			return set(StrLit(strings.Trim(args[0].Str, args[1].Str)))
		}
		if p, d, ok := decString(args[0]); ok && args[1].Op == "str" && !hasDigit(args[1].Str) {
			// a decimal rendering is non-empty and starts and ends with a digit: only the prefix is trimmed
			v.assumeNote("strings.Trim on literal ++ decimal: decided structurally")
			return set(strConcat(StrLit(strings.TrimLeft(p, args[1].Str)), d))
		}
		return set(App("str_trim", SString, args[0], args[1]))
	case "strings.Join":
		if elems, ok := sliceElems(st, args[0], SString); ok && args[1].Op == "str" {
			if allLit(elems...) {
				var ss []string
				for _, e := range elems {
					ss = append(ss, e.Str)
				}
				return set(StrLit(strings.Join(ss, args[1].Str)))
			}
			var r *Term
			for i, e := range elems {
				if i == 0 {
					r = e
					continue
				}
				if args[1].Str != "" {
					r = strConcat(r, args[1])
				}
				r = strConcat(r, e)
			}
			if r == nil {
				r = StrLit("")
			}
			return set(r)
		}
	case "strings.SplitN":
		if allLit(args...) {
			parts := strings.SplitN(args[0].Str, args[1].Str, int(args[2].Int64()))
			var ts []*Term
			for _, p := range parts {
				ts = append(ts, StrLit(p))
			}
			return set(v.mkSlice(st, SString, ts))
		}
		if pieces, ok := strPieces(args[0]); ok && args[1].Op == "str" && args[1].Str != "" && !hasDigit(args[1].Str) && args[2].IsInt() && args[2].Int64() == 2 {
			// literal and decimal pieces: a digit-free separator can only occur inside one literal piece
			v.assumeNote("strings.SplitN on literal/decimal concatenations: decided structurally (decimal renderings are non-empty digit strings)")
			for i, pc := range pieces {
				if pc.Op != "str" {
					continue
				}
				if j := strings.Index(pc.Str, args[1].Str); j >= 0 {
					before := StrLit("")
					for _, q := range pieces[:i] {
						before = strConcat(before, q)
					}
					before = strConcat(before, StrLit(pc.Str[:j]))
					after := StrLit(pc.Str[j+len(args[1].Str):])
					for _, q := range pieces[i+1:] {
						after = strConcat(after, q)
					}
					return set(v.mkSlice(st, SString, []*Term{before, after}))
				}
			}
			return set(v.mkSlice(st, SString, []*Term{args[0]}))
		}
	case "strings.Compare":
		if allLit(args...) {
			return set(IntLit(int64(strings.Compare(args[0].Str, args[1].Str))))
		}
		return set(Ite(mk("str.<", SBool, args[0], args[1]), IntLit(-1), Ite(Eq(args[0], args[1]), IntLit(0), IntLit(1))))
	case "slices.SortFunc":
		// x is rearranged: afterwards it holds the elements it held (each position takes its element from some
		// position of the old contents) and every neighbouring pair is in order according to cmp. cmp must be a known
		// function value with a contract; its precondition is demanded of every pair of elements.
		if args[1].IsInt() {
			id := args[1].Int64()
			x := args[0]
			es := sortOf(elemType(in.Common().Args[0].Type()))
			as := ArraySort(SInt, es)
			h := st.getHeap(as)
			ref, off, n := Sel(x, 0), Sel(x, 1), Sel(x, 2)
			old := Select(h, ref)
			i, j := BVar("i$sort", SInt), BVar("j$sort", SInt)
			csig := closures[id].fn.Signature
			if len(closures[id].bindings) == 0 && csig.Params().Len() == 2 {
				inR := func(t *Term) *Term { return And(Le(IntLit(0), t), Lt(t, n)) }
				pre, _, ok := v.closureFacts(st, id, []*Term{Select(old, Add(off, i)), Select(old, Add(off, j))}, fvApp(IntLit(id), []*Term{Select(old, Add(off, i)), Select(old, Add(off, j))}, csig))
				if ok {
					v.safety(st, in, "sortcmp-pre", Forall([]*Term{i}, Forall([]*Term{j}, Implies(And(inR(i), inR(j)), pre))))
					nw := Fresh("sorted", as)
					regexNext++
					perm := fmt.Sprintf("sortperm%d", regexNext)
					pi := App(perm, SInt, i)
					st.assume(Forall([]*Term{i}, Implies(inR(i), And(inR(pi), Eq(Select(nw, Add(off, i)), Select(old, Add(off, pi)))))))
					st.assume(Forall([]*Term{i}, Implies(Not(inR(Sub(i, off))), Eq(Select(nw, i), Select(old, i)))))
					a, b := Select(nw, Add(off, i)), Select(nw, Add(off, Add(i, IntLit(1))))
					res := fvApp(IntLit(id), []*Term{a, b}, csig)
					st.setHeap(as, Store(h, ref, nw))
					_, post, _ := v.closureFacts(st, id, []*Term{a, b}, res)
					st.assume(Forall([]*Term{i}, Implies(And(Le(IntLit(0), i), Lt(Add(i, IntLit(1)), n)), And(post, Le(res, IntLit(0))))))
					v.assumeNote("slices.SortFunc: the result is a rearrangement of the input in which every neighbouring pair is in order according to the comparator's contract (assumed)")
					return set()
				}
			}
		}
	case "unicode.IsSpace":
		if args[0].IsInt() {
			return set(BoolLit(unicode.IsSpace(rune(args[0].Int64()))))
		}
		r := App("is_space", SBool, args[0])
		return set(r)
	case "math.Floor":
		return set(mk("to_real", SReal, mk("to_int", SInt, args[0])))
	case "math.Ceil":
		return set(mk("-", SReal, mk("to_real", SReal, mk("to_int", SInt, mk("-", SReal, args[0])))))
	case "math.Trunc":
		return set(mk("to_real", SReal, Ite(mk("<=", SBool, RealLit("0"), args[0]), mk("to_int", SInt, args[0]), Neg(mk("to_int", SInt, mk("-", SReal, args[0]))))))
	case "math.Round":
		return set(mk("to_real", SReal, App("round_half_away", SInt, args[0])))
	case "regexp.MustCompile":
		if args[0].Op == "str" {
			regexNext++
			regexPats[regexNext] = args[0].Str
			return set(IntLit(regexNext))
		}
	case "(*regexp.Regexp).FindAllStringSubmatch":
		if args[0].IsInt() && args[1].Op == "str" && args[2].IsInt() {
			pat, ok := regexPats[args[0].Int64()]
			if ok {
				re := regexp.MustCompile(pat)
				ms := re.FindAllStringSubmatch(args[1].Str, int(args[2].Int64()))
				var rows []*Term
				for _, m := range ms {
					var cols []*Term
					for _, c := range m {
						cols = append(cols, StrLit(c))
					}
					rows = append(rows, v.mkSlice(st, SString, cols))
				}
				if rows == nil {
					return set(zeroTerm(SSlice))
				}
				return set(v.mkSlice(st, SSlice, rows))
			}
		}
		if args[0].IsInt() {
			if pat, ok := regexPats[args[0].Int64()]; ok {
				// unknown subject: some number of matches, each a row of 1 + NumSubexp strings
				v.assumeNote("regexp FindAllStringSubmatch on a non-constant string: the matches are unconstrained rows of 1+NumSubexp strings")
				n := int64(regexp.MustCompile(pat).NumSubexp() + 1)
				rowsArr := Fresh("re_rows", ArraySort(SInt, SSlice))
				cnt := Fresh("re_n", SInt)
				st.assume(Ge(cnt, IntLit(0)))
				ref := st.alloc(ArraySort(SInt, SSlice), rowsArr)
				i := BVar("i$re", SInt)
				row := Select(rowsArr, i)
				st.assume(Forall([]*Term{i}, Implies(And(Ge(i, IntLit(0)), Lt(i, cnt)),
					And(Eq(Sel(row, 2), IntLit(n)), Ge(Sel(row, 1), IntLit(0)), Lt(Sel(row, 0), IntLit(0))))))
				return set(Ite(Eq(cnt, IntLit(0)), zeroTerm(SSlice), Mk(SSlice, ref, IntLit(0), cnt)))
			}
		}
	case "log/slog.Debug", "log/slog.Info", "log/slog.Error", "log/slog.Warn":
		return set()
	case "log/slog.String", "log/slog.Int", "log/slog.Any", "log/slog.Bool":
		return set(zeroTerm(sortOf(sig.Results().At(0).Type())))
	case "slices.Index":
		// inline the generic body
		if fn.Blocks != nil {
			fr := &Frame{fn: fn, block: fn.Blocks[0], call: in, visits: map[int]int{}, cuts: map[int]*cutInfo{}}
			for i, p := range fn.Params {
				st.env[p] = args[i]
			}
			st.frames = append(st.frames, fr)
			return true
		}
	}
	if strings.HasPrefix(name, "(*github.com/spf13/pflag.FlagSet).Get") && len(args) == 2 && args[1].Op == "str" {
		// flag values: a fixed (unknown) value per flag name
		T := sig.Results().At(0).Type()
		val := App("flag$"+args[1].Str, sortOf(T))
		for _, c := range typeInv(val, T, 0) {
			st.assume(c)
		}
		return set(val, zeroTerm(SIface))
	}
	v.assumeNote("external " + name + ": results unconstrained, heap assumed unchanged")
	v.bindResults(st, in, sig, nil)
	return true
}

func strConcat(a, b *Term) *Term {
	if a.Op == "str" && b.Op == "str" {
		return StrLit(a.Str + b.Str)
	}
	if a.Op == "str" && a.Str == "" {
		return b
	}
	if b.Op == "str" && b.Str == "" {
		return a
	}
	return mk("str.++", SString, a, b)
}

var _ = fmt.Sprintf

// decString recognises  literal ++ dec(n)  (or dec(n) alone).
func decString(t *Term) (prefix string, d *Term, ok bool) {
	if t.Op == "app" && t.Str == "dec" {
		return "", t, true
	}
	if t.Op == "str.++" && len(t.Args) == 2 && t.Args[0].Op == "str" && t.Args[1].Op == "app" && t.Args[1].Str == "dec" {
		return t.Args[0].Str, t.Args[1], true
	}
	return "", nil, false
}

// strPieces flattens a concatenation into string literals and dec(n) applications (nothing else).
func strPieces(t *Term) ([]*Term, bool) {
	switch {
	case t.Op == "str":
		return []*Term{t}, true
	case t.Op == "app" && t.Str == "dec":
		return []*Term{t}, true
	case t.Op == "str.++":
		var out []*Term
		for _, a := range t.Args {
			ps, ok := strPieces(a)
			if !ok {
				return nil, false
			}
			out = append(out, ps...)
		}
		return out, true
	}
	return nil, false
}

func hasDigit(s string) bool { return strings.ContainsAny(s, "0123456789") }
func isDigits(s string) bool {
	for _, r := range s {
		if r < '0' || r > '9' {
			return false
		}
	}
	return s != ""
}

// sprintf models fmt.Sprintf/Sprint for formats made of literal text and %s %d %v verbs.
func (v *Verifier) sprintf(st *State, in *ssa.Call, isSprint bool, args []*Term) (*Term, bool) {
	var format string
	var elemsArg *Term
	if isSprint {
		elemsArg = args[0]
	} else {
		if args[0].Op != "str" {
			return nil, false
		}
		format = args[0].Str
		elemsArg = args[1]
	}
	elems, ok := sliceElems(st, elemsArg, SIface)
	if !ok {
		return nil, false
	}
	if isSprint {
		if len(elems) != 1 {
			return nil, false
		}
		format = "%v"
	}
	res := StrLit("")
	ai := 0
	for i := 0; i < len(format); i++ {
		c := format[i]
		if c != '%' {
			res = strConcat(res, StrLit(string(c)))
			continue
		}
		i++
		if i >= len(format) {
			return nil, false
		}
		verb := format[i]
		if verb == '%' {
			res = strConcat(res, StrLit("%"))
			continue
		}
		if verb != 's' && verb != 'd' && verb != 'v' || ai >= len(elems) {
			return nil, false
		}
		piece, ok := v.renderArg(st, in, verb, elems[ai])
		ai++
		if !ok {
			return nil, false
		}
		res = strConcat(res, piece)
	}
	if ai != len(elems) {
		return nil, false
	}
	v.assumeNote("fmt.Sprintf/Sprint with %s %d %v: concatenation of String() results, strings and canonical decimals (assumed)")
	return res, true
}

func (v *Verifier) renderArg(st *State, in *ssa.Call, verb byte, e *Term) (*Term, bool) {
	tag := Sel(e, 0)
	if !tag.IsInt() {
		return nil, false
	}
	T := typeTagTypes[tag.Int64()]
	if T == nil {
		return nil, false
	}
	val := unbox(st, e, T)
	if verb == 's' || verb == 'v' {
		// Stringer with a contract
		ms := v.P.Prog.MethodSets.MethodSet(T)
		for i := 0; i < ms.Len(); i++ {
			if ms.At(i).Obj().Name() == "String" {
				fn := v.P.Prog.MethodValue(ms.At(i))
				if fn != nil && inRepoFn(fn) && fn.Signature.Params().Len() == 0 && fn.Signature.Results().Len() == 1 {
					if c := v.contractFor(fn); c != nil && !c.IsIface {
						// fmt recovers from a panicking String method, so its precondition is not an
						// obligation here: the contract is used only where the precondition is known to hold
						env := &SpecEnv{v: v, st: st, pkg: c.Pkg.Types, vars: map[string]SVal{}}
						names, tys := contractParams(c, fn, fn.Signature)
						env.vars[names[0]] = SVal{val, tys[0]}
						for _, r := range c.Requires {
							if v.inc == nil || v.inc.Feasible(st.pc, Not(env.evalBool(r.Expr))) {
								return Fresh("str", SString), true
							}
						}
						if !v.applyContract(st, in, c, fn, fn.Signature, []*Term{val}) {
							return nil, false
						}
						return st.env[in], true
					}
					return nil, false
				}
			}
		}
	}
	if isString(T) && verb != 'd' {
		return val, true
	}
	if isInteger(T) && isUnsigned(T) && (verb == 'd' || verb == 'v') {
		return strConcat(StrLit(""), App("dec", SString, val)), true
	}
	return nil, false
}
