package main

// Tolerance to renamed variables.
//
// Contracts name parameters, receivers and local variables (loop invariants do so all the time). A change that
// only renames one of them would make every clause naming it unreadable and the check would raise an alarm on
// code that still has the property. The names a contract may use are therefore recorded, per function under
// contract, in the order and with the type they are declared with on the tree the contracts were written for
// (`/verif/props/names.json`, written by `govc names`); when a clause names something the function no longer
// declares, and the function now declares - at the same place in that order and with the same type - a name it
// did not have before, the clause is read with the new name.
//
// This cannot make a wrong proof go through: which variable an invariant or a clause talks about is part of the
// proof attempt, every clause is still checked against the code as it is, and a binding that is wrong simply
// fails to verify.

import (
	"fmt"
	"encoding/json"
	"go/ast"
	"go/types"
	"os"
	"path/filepath"
	"sort"
	"strings"
	"sync"

	"golang.org/x/tools/go/ssa"
)

type declName struct {
	Name string `json:"name"`
	Type string `json:"type"`
}

// declNames lists the variables (receiver, parameters, results, locals) the function declares, in source order.
// Function literals inside it are functions of their own.
func declNames(P *Program, fn *ssa.Function) []declName {
	syn := fn.Syntax()
	if syn == nil || fn.Pkg == nil {
		return nil
	}
	pkg := P.ByPath[fn.Pkg.Pkg.Path()]
	if pkg == nil || pkg.TypesInfo == nil {
		return nil
	}
	var out []declName
	seen := map[types.Object]bool{}
	top := true
	ast.Inspect(syn, func(n ast.Node) bool {
		switch x := n.(type) {
		case *ast.FuncLit:
			if top && ast.Node(x) == syn {
				top = false
				return true
			}
			return false
		case *ast.Ident:
			if o, ok := pkg.TypesInfo.Defs[x].(*types.Var); ok && o != nil && !o.IsField() && x.Name != "_" && !seen[o] {
				seen[o] = true
				out = append(out, declName{x.Name, types.TypeString(o.Type(), nil)})
			}
		}
		top = false
		return true
	})
	return out
}

var (
	recordedNames map[string][]declName
	renameCache   = map[*ssa.Function]map[string]string{}
)

func loadRecordedNames() {
	recordedNames = map[string][]declName{}
	data, err := os.ReadFile(filepath.Join(verifDir, "props", "names.json"))
	if err != nil {
		return
	}
	json.Unmarshal(data, &recordedNames)
}

// renamesOf maps names the contract of fn may still use to the names fn declares now.
func renamesOf(P *Program, fn *ssa.Function) map[string]string {
	if m, ok := renameCache[fn]; ok {
		return m
	}
	m := map[string]string{}
	renameCache[fn] = m
	if recordedNames == nil {
		loadRecordedNames()
	}
	if par := fn.Parent(); par != nil {
		// a closure names the variables it captured by the names its parent gives them
		defer func() {
			for was, now := range renamesOf(P, par) {
				if _, ok := m[was]; !ok {
					m[was] = now
				}
			}
		}()
	}
	old := recordedNames[funcKey(fn)]
	if len(old) == 0 {
		return m
	}
	cur := declNames(P, fn)
	for was, now := range alignRenames(old, cur) {
		m[was] = now
	}
	return m
}

var (
	fieldRenameCache = map[string]map[string]string{}
	fieldRenameMu    sync.Mutex
)

// fieldRenames maps the field names a struct type had when the contracts were written to the names it has now.
func fieldRenames(T types.Type) map[string]string {
	n, ok := T.(*types.Named)
	if !ok || n.Obj().Pkg() == nil || !inRepo(n.Obj().Pkg()) {
		return nil
	}
	key := "type:" + n.Obj().Pkg().Path() + "." + n.Obj().Name()
	fieldRenameMu.Lock()
	defer fieldRenameMu.Unlock()
	if m, ok := fieldRenameCache[key]; ok {
		return m
	}
	if recordedNames == nil {
		loadRecordedNames()
	}
	var m map[string]string
	if st, ok := n.Underlying().(*types.Struct); ok && len(recordedNames[key]) > 0 {
		m = alignRenames(recordedNames[key], structFields(st))
	}
	fieldRenameCache[key] = m
	return m
}

func structFields(st *types.Struct) []declName {
	var out []declName
	for i := 0; i < st.NumFields(); i++ {
		out = append(out, declName{st.Field(i).Name(), types.TypeString(st.Field(i).Type(), nil)})
	}
	return out
}

func alignRenames(old, cur []declName) map[string]string {
	m := map[string]string{}
	// longest common subsequence of (name, type); the gaps between matches that hold as many names on each
	// side are read as renames, position by position, when the types agree and neither name exists on the other side
	n, k := len(old), len(cur)
	lcs := make([][]int, n+1)
	for i := range lcs {
		lcs[i] = make([]int, k+1)
	}
	for i := n - 1; i >= 0; i-- {
		for j := k - 1; j >= 0; j-- {
			if old[i] == cur[j] {
				lcs[i][j] = lcs[i+1][j+1] + 1
			} else if lcs[i+1][j] >= lcs[i][j+1] {
				lcs[i][j] = lcs[i+1][j]
			} else {
				lcs[i][j] = lcs[i][j+1]
			}
		}
	}
	oldHas, curHas := map[string]bool{}, map[string]bool{}
	for _, d := range old {
		oldHas[d.Name] = true
	}
	for _, d := range cur {
		curHas[d.Name] = true
	}
	flush := func(go_, gc []declName) {
		if len(go_) != len(gc) {
			return
		}
		for i := range go_ {
			if go_[i].Type == gc[i].Type && !curHas[go_[i].Name] && !oldHas[gc[i].Name] {
				m[go_[i].Name] = gc[i].Name
			}
		}
	}
	var gapO, gapC []declName
	i, j := 0, 0
	for i < n && j < k {
		switch {
		case old[i] == cur[j]:
			flush(gapO, gapC)
			gapO, gapC = nil, nil
			i++
			j++
		case lcs[i+1][j] >= lcs[i][j+1]:
			gapO = append(gapO, old[i])
			i++
		default:
			gapC = append(gapC, cur[j])
			j++
		}
	}
	gapO = append(gapO, old[i:]...)
	gapC = append(gapC, cur[j:]...)
	flush(gapO, gapC)
	return m
}

// writeNames records the declared names of every function under contract (govc names).
func writeNames(P *Program) error {
	out := map[string][]declName{}
	var keys []string
	for k, c := range P.Contracts {
		if c.IsIface || c.External {
			continue
		}
		keys = append(keys, k)
	}
	sort.Strings(keys)
	for _, k := range keys {
		for _, fn := range P.Funcs[k] {
			if d := declNames(P, fn); len(d) > 0 {
				out[k] = d
				break
			}
		}
	}
	var all []declName
	for k, fns := range P.Funcs {
		if len(fns) > 0 && inRepoFn(fns[0]) {
			all = append(all, declName{Name: k})
		}
	}
	sort.Slice(all, func(i, j int) bool { return all[i].Name < all[j].Name })
	out["funcs:all"] = all
	for _, pkg := range P.Pkgs {
		if pkg.Types == nil || !inRepo(pkg.Types) {
			continue
		}
		for _, name := range pkg.Types.Scope().Names() {
			if tn, ok := pkg.Types.Scope().Lookup(name).(*types.TypeName); ok {
				if st, ok := tn.Type().Underlying().(*types.Struct); ok && st.NumFields() > 0 {
					out["type:"+pkg.Types.Path()+"."+name] = structFields(st)
				}
			}
		}
	}
	data, err := json.MarshalIndent(out, "", " ")
	if err != nil {
		return err
	}
	return os.WriteFile(filepath.Join(verifDir, "props", "names.json"), data, 0o644)
}

// funcRenamed maps the key of a function as it is called now to the key its contract was written under.
var funcRenamed = map[string]string{}

// findFuncRenames: a contract whose function is gone, while the same package (and receiver type) has exactly one
// function that did not exist when the contracts were written and that declares variables of the same types in
// the same order, is taken to be that function's contract. As with variables, a wrong guess cannot prove
// anything: the contract is checked against the body it is attached to.
func findFuncRenames(P *Program) bool {
	if recordedNames == nil {
		loadRecordedNames()
	}
	all := map[string]bool{}
	for _, d := range recordedNames["funcs:all"] {
		all[d.Name] = true
	}
	if len(all) == 0 {
		return false
	}
	prefix := func(k string) string {
		if i := strings.LastIndex(k, "."); i >= 0 {
			return k[:i]
		}
		return k
	}
	typesOf := func(ds []declName) string {
		var ts []string
		for _, d := range ds {
			ts = append(ts, d.Type)
		}
		return strings.Join(ts, ";")
	}
	found := false
	var keys []string
	for k := range P.Contracts {
		keys = append(keys, k)
	}
	sort.Strings(keys)
	taken := map[string]bool{}
	for _, k := range keys {
		c := P.Contracts[k]
		if c.IsIface || c.External || strings.Contains(k, "$") || len(P.Funcs[k]) > 0 || len(recordedNames[k]) == 0 {
			continue
		}
		var cands []string
		for k2, fns := range P.Funcs {
			if all[k2] || taken[k2] || strings.Contains(k2, "$") || prefix(k2) != prefix(k) || P.Contracts[k2] != nil || len(fns) == 0 {
				continue
			}
			if typesOf(declNames(P, fns[0])) == typesOf(recordedNames[k]) {
				cands = append(cands, k2)
			}
		}
		if len(cands) == 1 {
			if os.Getenv("GOVC_DEBUG") != "" {
				fmt.Fprintln(os.Stderr, "function rename:", k, "<-", cands[0])
			}
			funcRenamed[cands[0]] = k
			taken[cands[0]] = true
			found = true
		}
	}
	return found
}
