package main

import (
	"encoding/json"
	"go/types"
	"flag"
	"fmt"
	"os"
	"path/filepath"
	"sort"
	"strconv"
	"strings"
	"time"

	"golang.org/x/tools/go/ssa"
)

type Plan struct {
	Property   string   `json:"property"`
	Functions  []string `json:"functions"`  // contract keys whose obligations belong to the property
	Exclude    []string `json:"exclude"`    // obligation-name prefixes not claimed (with the reason in notes)
	Notes      []string `json:"notes"`
	Assume     []string `json:"assumptions"`
	NotCovered []string `json:"not_covered"`
	Standins   []string `json:"standins"`
}

var verifDir = "/verif"
var onlyFilter string

func main() {
	if len(os.Args) < 2 {
		fmt.Fprintln(os.Stderr, "usage: govc check|ssa|list ...")
		os.Exit(2)
	}
	cmd := os.Args[1]
	fs := flag.NewFlagSet(cmd, flag.ExitOnError)
	repo := fs.String("repo", "/repo", "repository working tree")
	prop := fs.String("prop", "", "property id")
	tier := fs.String("tier", envOr("VERIF_TIER", "quick"), "quick|thorough")
	fnKey := fs.String("fn", "", "function key (debug)")
	keep := fs.Bool("keep", false, "keep SMT files")
	verbose := fs.Bool("v", false, "verbose")
	noEvidence := fs.Bool("no-evidence", false, "do not write evidence/replay files")
	learn := fs.Bool("learn", false, "compute unsat cores and store them as proof hints")
	only := fs.String("only", "", "discharge only obligations whose name contains this (debugging)")
	vd := fs.String("verif", envOr("VERIF_DIR", "/verif"), "verif directory")
	fs.Parse(os.Args[2:])
	verifDir = *vd
	learnMode = *learn
	switch cmd {
	case "ssa":
		P := mustLoad(*repo)
		for _, fn := range P.Funcs[*fnKey] {
			fn.WriteTo(os.Stdout)
		}
	case "list":
		P := mustLoad(*repo)
		var ks []string
		for k := range P.Funcs {
			if strings.Contains(k, *fnKey) {
				ks = append(ks, k)
			}
		}
		sort.Strings(ks)
		for _, k := range ks {
			fmt.Println(k, len(P.Funcs[k]))
		}
	case "names":
		P := mustLoad(*repo)
		if err := writeNames(P); err != nil {
			fmt.Fprintln(os.Stderr, err)
			os.Exit(2)
		}
	case "check":
		onlyFilter = *only
		os.Exit(check(*repo, *prop, *tier, *fnKey, *keep, *verbose, *noEvidence))
	default:
		fmt.Fprintln(os.Stderr, "unknown command", cmd)
		os.Exit(2)
	}
}

func envOr(k, d string) string {
	if v := os.Getenv(k); v != "" {
		return v
	}
	return d
}

func mustLoad(repo string) *Program {
	P, err := loadProgram(repo)
	if err != nil {
		fmt.Fprintln(os.Stderr, "UNDECIDED: cannot load repository:", err)
		os.Exit(2)
	}
	return P
}

func loadPrelude() string {
	files, _ := filepath.Glob(filepath.Join(verifDir, "spec", "*.smt2"))
	sort.Strings(files)
	var b strings.Builder
	for _, f := range files {
		data, err := os.ReadFile(f)
		if err != nil {
			continue
		}
		b.Write(data)
		b.WriteString("\n")
	}
	parseSpecSigs(b.String())
	parsePreludeForms(b.String())
	parseSpecDefs(b.String())
	return b.String()
}

func check(repo, prop, tier, fnKey string, keep, verbose, noEvidence bool) int {
	start := time.Now()
	seed, _ := strconv.Atoi(os.Getenv("VERIF_SEED"))
	P, lerr := loadProgram(repo)
	if lerr != nil {
		// The tree does not load with the contract files compiled in (it may well build without them: a lemma
		// or ghost file names something the change removed). Every obligation was discharged on the tree the
		// contracts were written for and none can be generated now: reported like a function that left the subset.
		fmt.Println("UNDECIDED: cannot load repository with -tags verif:", lerr)
		if prop == "" {
			return 2
		}
		path := ""
		if !noEvidence {
			dir := filepath.Join(verifDir, "replays", prop)
			os.MkdirAll(dir, 0o755)
			path = filepath.Join(dir, "load.json")
			data, _ := json.MarshalIndent(map[string]any{"property": prop, "obligation": "load:" + prop, "kind": "subset",
				"clause": "the repository loads with the contract, lemma and ghost files compiled in", "answer": "undecided",
				"backend": "loader", "outputs": map[string]string{"loader": lerr.Error()}}, "", " ")
			os.WriteFile(path, data, 0o644)
			ev := map[string]any{"property_id": prop, "tier": tier, "seed": seed, "level": "proof",
				"coverage":    map[string]any{"obligations": 0, "discharged": 0, "load_error": lerr.Error(), "checker_cmd": fmt.Sprintf("/verif/bin/govc check -prop %s -tier %s", prop, tier)},
				"assumptions": []string{}, "wall_s": time.Since(start).Seconds(), "violations": 1}
			os.MkdirAll(filepath.Join(verifDir, "evidence"), 0o755)
			data, _ = json.MarshalIndent(ev, "", " ")
			os.WriteFile(filepath.Join(verifDir, "evidence", prop+".json"), data, 0o644)
		}
		fmt.Printf("VIOLATION property=%s replay=%s obligation=load:%s answer=undecided no-failing-input-found\n", prop, path, prop)
		return 1
	}
	loadT := time.Since(start)
	registerNamedSorts(P)
	prelude := loadPrelude()
	loadPreludeCached = prelude
	var plan Plan
	if prop != "" {
		data, err := os.ReadFile(filepath.Join(verifDir, "props", prop+".json"))
		if err != nil {
			fmt.Fprintln(os.Stderr, "UNDECIDED: no plan:", err)
			return 2
		}
		if err := json.Unmarshal(data, &plan); err != nil {
			fmt.Fprintln(os.Stderr, "UNDECIDED: bad plan:", err)
			return 2
		}
	}
	if fnKey != "" {
		plan.Functions = strings.Split(fnKey, ",")
	}
	v := newVerifier(P)
	inc, err := newIncSolver(prelude)
	if err != nil {
		fmt.Fprintln(os.Stderr, "UNDECIDED: cannot start z3:", err)
		return 2
	}
	v.inc = inc
	defer inc.Close()
	v.runInits()
	if verbose {
		for _, e := range v.errs {
			fmt.Fprintln(os.Stderr, "note:", e)
		}
		fmt.Fprintf(os.Stderr, "init image: %d cells\n", v.initCells)
	}
	// generate
	var missing []string
	var fnsUnder []string
	for _, key := range plan.Functions {
		c := P.Contracts[key]
		if c == nil {
			missing = append(missing, key+" (no contract)")
			continue
		}
		if c.IsIface {
			continue
		}
		fns := P.Funcs[key]
		if len(fns) == 0 {
			// the function the contract was written on is gone: everything proved about it is void
			name := "exists:" + key
			v.obls[name] = &Obligation{Name: name, Kind: "exists", Func: key, Clause: "the function under contract exists",
				Result: &ObResult{Answer: "function-missing", Backend: "loader", Outputs: map[string]string{"loader": "no function " + key + " in the current tree; its contract (" + filepath.Base(c.File) + ") can no longer be discharged"}}}
			v.order = append(v.order, name)
			continue
		}
		for i, fn := range fns {
			if fn.Blocks == nil {
				continue
			}
			if fn.TypeParams().Len() > 0 && len(fn.TypeArgs()) == 0 {
				continue // generic template; instances are verified
			}
			_ = i
			err := v.verifyFunc(fn, c)
			fnsUnder = append(fnsUnder, fn.String())
			if err != nil && verbose {
				fmt.Fprintln(os.Stderr, "undecided:", err)
			}
		}
	}
	if len(missing) > 0 {
		fmt.Println("UNDECIDED: contracted functions missing:", strings.Join(missing, ", "))
		return 2
	}
	genT := time.Since(start) - loadT
	// select obligations
	var obs []*Obligation
	var excluded []string
	for _, n := range v.order {
		ob := v.obls[n]
		skip := false
		for _, ex := range plan.Exclude {
			if strings.HasPrefix(n, ex) {
				skip = true
			}
		}
		if skip {
			excluded = append(excluded, n)
			continue
		}
		if onlyFilter != "" && !strings.Contains(n, onlyFilter) {
			continue
		}
		obs = append(obs, ob)
	}
	dir, _ := os.MkdirTemp("", "govc-smt-")
	if !keep {
		defer os.RemoveAll(dir)
	} else {
		fmt.Fprintln(os.Stderr, "SMT files in", dir)
	}
	d := &Discharger{dir: dir, prelude: prelude, timeout: 10, thorough: tier == "thorough", sem: make(chan struct{}, 16)}
	if d.thorough {
		d.timeout = 60
	}
	hp := prop
	if hp == "" {
		hp = "adhoc"
	}
	loadHints(hp)
	d.dischargeAll(obs)
	if learnMode {
		saveHints()
	}
	return report(P, v, &plan, prop, tier, seed, obs, excluded, fnsUnder, start, loadT, genT, d, verbose, noEvidence)
}

type evidenceSample struct {
	Obligation string  `json:"obligation"`
	Kind       string  `json:"kind"`
	Clause     string  `json:"clause"`
	Paths      int     `json:"paths"`
	Backend    string  `json:"backend"`
	Seconds    float64 `json:"seconds"`
	SMTBytes   int     `json:"smt_bytes"`
}

func report(P *Program, v *Verifier, plan *Plan, prop, tier string, seed int, obs []*Obligation, excluded, fnsUnder []string,
	start time.Time, loadT, genT time.Duration, d *Discharger, verbose, noEvidence bool) int {
	known := loadKnownFindings(prop)
	var failed []*Obligation
	discharged, covers := 0, 0
	byBackend := map[string]int{}
	solverS := 0.0
	var samples []evidenceSample
	for _, ob := range obs {
		r := ob.Result
		solverS += r.Seconds
		switch r.Status {
		case "proved", "trivial":
			discharged++
			byBackend[r.Backend]++
		case "cover-ok":
			discharged++
			covers++
			byBackend[r.Backend]++
		default:
			failed = append(failed, ob)
		}
		if verbose {
			fmt.Fprintf(os.Stderr, "%-12s %-70s %s %.2fs %s\n", r.Status, ob.Name, r.Backend, r.Seconds, r.Answer)
		}
		if len(samples) < 12 && (r.Status == "proved" || r.Status == "cover-ok") {
			samples = append(samples, evidenceSample{ob.Name, ob.Kind, ob.Clause, len(ob.Cases) + ob.NTriv, r.Backend, r.Seconds, r.SMTBytes})
		}
	}
	exit := 0
	violations := 0
	var knownHit []string
	undecided := 0
	for _, ob := range failed {
		if ob.Failure != "" {
			// the verifier cannot model the code as it now stands: every obligation of this function, discharged on the
			// tree the check was built for, can no longer be generated. Reported once per function, against the
			// obligation "the function is inside the modelled subset"; there is no counterexample to replay.
			undecided++
			if ob.Kind == "subset" {
				fmt.Printf("UNDECIDED: property=%s %s: %s\n", prop, ob.Func, ob.Failure)
				if kf := known.match(ob.Name); kf != nil {
					fmt.Printf("KNOWN-FINDING: property=%s %s %s\n", prop, ob.Name, kf.What)
					knownHit = append(knownHit, ob.Name)
					continue
				}
				exit = 1
				path := ""
				if !noEvidence {
					ob.Result.Outputs = map[string]string{"govc": ob.Failure}
					path, _ = writeReplay(P, v, prop, ob)
				}
				fmt.Printf("VIOLATION property=%s replay=%s obligation=%s answer=undecided no-failing-input-found\n", prop, path, ob.Name)
			}
			continue
		}
		if kf := known.match(ob.Name); kf != nil {
			fmt.Printf("KNOWN-FINDING: property=%s %s %s\n", prop, ob.Name, kf.What)
			knownHit = append(knownHit, ob.Name)
			continue
		}
		violations++
		exit = 1
		path := ""
		suffix := ""
		if !noEvidence {
			path, suffix = writeReplay(P, v, prop, ob)
		}
		fmt.Printf("VIOLATION property=%s replay=%s obligation=%s answer=%s%s\n", prop, path, ob.Name, ob.Result.Answer, suffix)
	}
	if len(obs) == 0 {
		fmt.Printf("UNDECIDED: property %s generated no obligations\n", prop)
		return 2
	}
	wall := time.Since(start).Seconds()
	if prop != "" && !noEvidence {
		var assumptions []string
		assumptions = append(assumptions,
			"A-int64: arithmetic on int/uint (64-bit) is mathematical; unsigned 64-bit subtraction and int->uint conversion are checked not to go negative instead of wrapping",
			"go/packages + go/ssa translate the compiled files faithfully; govc's symbolic semantics of the SSA subset",
			"Go compiler and runtime; the three SMT solvers (quick: first definite answer; thorough: two must agree)",
		)
		assumptions = append(assumptions, plan.Assume...)
		for _, a := range sortedKeys(v.assumed) {
			assumptions = append(assumptions, a)
		}
		for _, n := range plan.NotCovered {
			assumptions = append(assumptions, "not covered: "+n)
		}
		for _, n := range excluded {
			assumptions = append(assumptions, "obligation generated but not claimed: "+n)
		}
		sort.Strings(fnsUnder)
		cov := map[string]any{
			"obligations":              len(obs),
			"discharged":               discharged + len(knownHit),
			"checker_cmd":              fmt.Sprintf("/verif/bin/govc check -prop %s -tier %s", prop, tier),
			"trusted_base":             []string{"golang.org/x/tools v0.30.0 go/packages+go/ssa", "govc (this VC generator)", "z3 4.8.12", "z3 5.1.0", "cvc5 1.0.3", "go1.24 toolchain"},
			"functions_under_contract": fnsUnder,
			"by_backend":               byBackend,
			"solver_s":                 solverS,
			"load_s":                   loadT.Seconds(),
			"generate_s":               genT.Seconds(),
			"covers_sat":               covers,
			"feasibility_queries":      v.inc.queries,
			"init_cells_folded":        v.initCells,
			"samples":                  samples,
			"known_findings_hit":       knownHit,
			"standins":                 plan.Standins,
			"notes":                    plan.Notes,
			"contracts_used_at_calls":  usedContracts(P),
		}
		ev := map[string]any{
			"property_id": prop,
			"tier":        tier,
			"seed":        seed,
			"level":       "proof",
			"coverage":    cov,
			"assumptions": assumptions,
			"wall_s":      wall,
			"violations":  violations,
		}
		os.MkdirAll(filepath.Join(verifDir, "evidence"), 0o755)
		data, _ := json.MarshalIndent(ev, "", " ")
		os.WriteFile(filepath.Join(verifDir, "evidence", prop+".json"), data, 0o644)
	}
	fmt.Printf("%s: %d obligations, %d discharged, %d failed (%d known, %d undecided), %.1fs (load %.1fs, generate %.1fs)\n",
		prop, len(obs), discharged, len(failed), len(knownHit), undecided, wall, loadT.Seconds(), genT.Seconds())
	if exit == 0 && undecided > 0 {
		return 2
	}
	return exit
}

func usedContracts(P *Program) []string {
	var out []string
	for k, c := range P.Contracts {
		if c.Used {
			out = append(out, k)
		}
	}
	sort.Strings(out)
	return out
}

// ---- known findings ----

type knownFinding struct {
	Property   string `json:"property"`
	Obligation string `json:"obligation"`
	What       string `json:"what"`
}

type knownFindings struct {
	Findings []knownFinding `json:"findings"`
	Fixed    []string       `json:"fixed"`
}

func loadKnownFindings(prop string) *knownFindings {
	var k knownFindings
	data, err := os.ReadFile(filepath.Join(verifDir, "known_findings.json"))
	if err == nil {
		json.Unmarshal(data, &k)
	}
	var out knownFindings
	for _, f := range k.Findings {
		if f.Property == prop {
			out.Findings = append(out.Findings, f)
		}
	}
	return &out
}

func (k *knownFindings) match(name string) *knownFinding {
	for i := range k.Findings {
		if k.Findings[i].Obligation == name {
			return &k.Findings[i]
		}
	}
	return nil
}

// ---- replay files ----

func writeReplay(P *Program, v *Verifier, prop string, ob *Obligation) (string, string) {
	dir := filepath.Join(verifDir, "replays", prop)
	os.MkdirAll(dir, 0o755)
	path := filepath.Join(dir, sanitize(ob.Name)+".json")
	rep := map[string]any{
		"property":   prop,
		"obligation": ob.Name,
		"kind":       ob.Kind,
		"clause":     ob.Clause,
		"function":   ob.Func,
		"answer":     ob.Result.Answer,
		"backend":    ob.Result.Backend,
		"outputs":    ob.Result.Outputs,
		"failure":    ob.Failure,
	}
	suffix := " no-failing-input-found"
	if ob.Result.Answer == "sat" && ob.Fn != nil {
		if rp := tryReplay(P, v, ob); rp != nil {
			rep["replay"] = rp
			if rp.Confirmed {
				suffix = ""
			}
		}
	}
	if ob.Result.SMTFile != "" {
		if data, err := os.ReadFile(ob.Result.SMTFile); err == nil && len(data) < 400000 {
			rep["smt"] = string(data)
		}
	}
	data, _ := json.MarshalIndent(rep, "", " ")
	os.WriteFile(path, data, 0o644)
	return path, suffix
}

var _ = ssa.InstantiateGenerics

// registerNamedSorts maps every named struct type of the repository to its
// datatype up front, so that the specification prelude can mention them.
func registerNamedSorts(P *Program) {
	for _, path := range P.Order {
		p := P.ByPath[path]
		if p == nil || p.Types == nil {
			continue
		}
		sc := p.Types.Scope()
		for _, n := range sc.Names() {
			if tn, ok := sc.Lookup(n).(*types.TypeName); ok {
				if _, isStruct := tn.Type().Underlying().(*types.Struct); isStruct {
					if named, ok := tn.Type().(*types.Named); ok && named.TypeParams().Len() == 0 {
						func() {
							defer func() { recover() }()
							sortOf(tn.Type())
							st := tn.Type().Underlying().(*types.Struct)
							for i := 0; i < st.NumFields(); i++ {
								if _, isMap := st.Field(i).Type().Underlying().(*types.Map); isMap {
									func() {
										defer func() { recover() }()
										mapSortOf(st.Field(i).Type())
									}()
								}
							}
						}()
					}
				}
			}
		}
	}
}
