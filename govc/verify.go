package main

import (
	"go/token"
	"fmt"
	"strconv"
	"go/types"
	"sort"
	"strings"
	"time"

	"golang.org/x/tools/go/ssa"
)

// verifyFunc generates the obligations of one function against its contract.
func (v *Verifier) verifyFunc(fn *ssa.Function, c *Contract) (err error) {
	v.top, v.topC = fn, c
	v.fnStart = time.Now()
	v.paths = 0
	v.returned = false
	key := funcKey(fn)
	before := len(v.order)
	defer func() {
		if r := recover(); r != nil {
			u, ok := r.(unsupported)
			if !ok {
				panic(r)
			}
			err = fmt.Errorf("%s: %s", key, u.msg)
			// every obligation of this function is undecided
			for _, n := range v.order[before:] {
				v.obls[n].Failure = u.msg
			}
			name := "subset:" + key
			v.obls[name] = &Obligation{Name: name, Kind: "subset", Func: key, Failure: u.msg, Fn: fn, Clause: "function is inside the modelled subset"}
			v.order = append(v.order, name)
		}
		v.top, v.topC, v.entry = nil, nil, nil
	}()
	st := newState()
	fr := &Frame{fn: fn, block: fn.Blocks[0], visits: map[int]int{}, cuts: map[int]*cutInfo{}, label: key}
	st.frames = []*Frame{fr}
	for _, p := range fn.Params {
		t := Var(fmt.Sprintf("p$%s@%s", p.Name(), sanitize(key)), sortOf(p.Type()))
		st.env[p] = t
		for _, inv := range typeInv(t, p.Type(), 0) {
			st.assume(inv)
		}
		for _, inv := range st.refBound(t, p.Type(), 0) {
			st.assume(inv)
		}
	}
	if len(fn.FreeVars) > 0 {
		for i, fv := range fn.FreeVars {
			name := fv.Name()
			if name == "" {
				name = fmt.Sprintf("#%d", i) // a holder the compiler made (unnamed result of the enclosing function)
			}
			t := Var("fv$"+name, SInt)
			st.assume(Gt(t, IntLit(0)))
			notGlobalRef[t] = true
			// captured variables are different variables
			for j, u := range fr.bindings {
				if sortOf(elemType(fn.FreeVars[j].Type())) == sortOf(elemType(fv.Type())) {
					st.assume(Neq(t, u))
				}
			}
			fr.bindings = append(fr.bindings, t)
		}
	}
	v.entry = st
	env := v.specEnv(st, fr)
	for _, r := range c.Requires {
		st.assume(env.evalBool(r.Expr))
	}
	v.entry = st.clone()
	v.addOb("cover:"+key+":pre", "cover", "precondition is satisfiable", st, TTrue, true)
	if c.Trusted {
		v.assumeNote("trusted contract (body not verified): " + c.Key)
		return nil
	}
	onTopReturn = func(v *Verifier, s *State, rs []*Term) {
		e := v.specEnv(s, s.top())
		res := fn.Signature.Results()
		for i, n := range c.Results {
			if i < len(rs) {
				e.vars[n] = SVal{rs[i], res.At(i).Type()}
			}
		}
		for i, en := range c.Ensures {
			g := e.evalBool(en.Expr)
			v.addOb(fmt.Sprintf("post:%s#%d", key, i+1), "post", en.Text, s, g, false)
		}
		if !c.MayExit {
			v.addOb("cover:"+key+":return", "cover", "some return is reachable under the precondition", s, TTrue, true)
		}
		// frame
		allowed := append(append([]string{}, c.Modifies...), c.Allocs...)
		if c.Pure {
			allowed = nil
		}
		if c.Pure || len(c.Modifies) > 0 || len(c.Allocs) > 0 {
			v.frameCheck(s, v.entry.heap, s.allocd, IntLit(0), c.Modifies, s.top(), "frame:"+key, true)
		}
		_ = allowed
	}
	defer func() { onTopReturn = nil }()
	v.noPrune = c.NoPrune
	defer func() { v.noPrune = false }()
	states := []*State{st}
	for _, en := range c.Enumerate {
		states = v.enumerate(states, fn, c, en)
	}
	for _, s := range states {
		v.explore(s)
	}
	if _, ok := v.obls["cover:"+key+":return"]; !ok && !c.MayExit {
		// no path returned: still register the cover so that it fails
		v.obls["cover:"+key+":return"] = &Obligation{Name: "cover:" + key + ":return", Kind: "cover", Cover: true, Func: key, Fn: fn,
			Clause: "some return is reachable under the precondition"}
		v.order = append(v.order, "cover:"+key+":return")
	}
	return nil
}

// ---- package initialisation: concrete interpretation ----

var initNext = int64(2000000)

func (v *Verifier) runInits() {
	st := newState()
	st.initMod = true
	for _, path := range v.P.Order {
		sp := v.P.SSAPkgs[path]
		if sp == nil {
			continue
		}
		if sp.Pkg.Name() == "main" || strings.HasSuffix(path, "/example") {
			continue
		}
		initFn := sp.Func("init")
		if initFn == nil {
			continue
		}
		func() {
			defer func() {
				if r := recover(); r != nil {
					u, ok := r.(unsupported)
					if !ok {
						panic(r)
					}
					v.errs = append(v.errs, fmt.Sprintf("init of %s not interpreted: %s", path, u.msg))
					v.assumeNote("package " + path + " initialisers not interpreted: " + u.msg)
				}
			}()
			s2 := st.clone()
			s2.frames = []*Frame{{fn: initFn, block: initFn.Blocks[0], visits: map[int]int{}, cuts: map[int]*cutInfo{}}}
			v.top = nil
			done := false
			onTopReturn = func(v *Verifier, s *State, rs []*Term) {
				if done {
					unsup("package init forked")
				}
				done = true
				st.heap = s.heap
				st.allocd = s.allocd
			}
			v.noPrune = true
			v.explore(s2)
			v.noPrune = false
			onTopReturn = nil
		}()
	}
	mut := v.mutableAfterInit()
	// harvest
	n := 0
	for name, h := range st.heap {
		img := map[string]*Term{}
		x := h
		seen := map[string]bool{}
		for x.Op == "store" {
			idx := x.Args[1]
			if idx.IsInt() {
				k := idx.Int.String()
				if !seen[k] {
					seen[k] = true
					if !mut.cell(name, idx) {
						img[k] = x.Args[2]
						n++
					}
				}
			}
			x = x.Args[0]
		}
		initImage[name+"@0"] = img
	}
	v.initCells = n
	v.mut = mut
}

// ---- which init-time cells may change afterwards ----

type mutInfo struct {
	sorts   map[string]string // heap name -> reason
	globals map[int64]string  // global ref -> reason
	isGlob  map[int64]bool
}

func (m *mutInfo) cell(heap string, ref *Term) bool {
	id := ref.Int64()
	if m.isGlob[id] {
		_, bad := m.globals[id]
		return bad
	}
	_, bad := m.sorts[heap]
	return bad
}

func isInitFn(fn *ssa.Function) bool {
	for f := fn; f != nil; f = f.Parent() {
		if f.Name() == "init" || strings.HasPrefix(f.Name(), "init#") || strings.HasPrefix(f.Name(), "init$") {
			return true
		}
	}
	return false
}

// rootOf traces an address or reference value to where it comes from.
func rootOf(x ssa.Value, depth int) (kind string, g *ssa.Global) {
	if depth > 12 {
		return "unknown", nil
	}
	switch t := x.(type) {
	case *ssa.Global:
		return "global", t
	case *ssa.Alloc, *ssa.MakeMap, *ssa.MakeSlice:
		return "local", nil
	case *ssa.FieldAddr:
		return rootOf(t.X, depth+1)
	case *ssa.IndexAddr:
		return rootOf(t.X, depth+1)
	case *ssa.Slice:
		return rootOf(t.X, depth+1)
	case *ssa.Call:
		if b, ok := t.Common().Value.(*ssa.Builtin); ok && b.Name() == "append" {
			return "local", nil
		}
		return "unknown", nil
	case *ssa.UnOp:
		// loaded pointer: the cell it points to is not the cell loaded from
		k, gg := rootOf(t.X, depth+1)
		if k == "local" {
			if loadedFromPrivateCell(t, depth) {
				return "local", nil
			}
			return "loaded-local", nil
		}
		if k == "global" {
			return "loaded-global", gg
		}
		return "unknown", nil
	case *ssa.Phi:
		kind := ""
		for _, e := range t.Edges {
			if e == x {
				continue
			}
			k, _ := rootOf(e, depth+1)
			if kind == "" {
				kind = k
			} else if kind != k {
				return "unknown", nil
			}
		}
		return kind, nil
	}
	return "unknown", nil
}

// loadedFromPrivateCell: ld loads a slice, map or pointer from a field of (or from) an object this function
// allocated and has not handed to anyone - its only uses are field addresses, loads, stores *to* it and returns -
// and every store into that same cell within the function puts there something the function made itself (make,
// append, new, a composite literal). What is loaded is then an object of this function's own, as if it had been
// kept in a local variable:  info := &T{xs: make(...)}; info.xs[i] = v  is the same as  xs := make(...); xs[i] = v.
func loadedFromPrivateCell(ld *ssa.UnOp, depth int) bool {
	if ld.Op != token.MUL {
		return false
	}
	var alloc *ssa.Alloc
	field := -1
	switch a := ld.X.(type) {
	case *ssa.Alloc:
		alloc = a
	case *ssa.FieldAddr:
		al, ok := a.X.(*ssa.Alloc)
		if !ok {
			return false
		}
		alloc, field = al, a.Field
	default:
		return false
	}
	sameCell := func(x ssa.Value) bool {
		if field < 0 {
			return x == ssa.Value(alloc)
		}
		fa, ok := x.(*ssa.FieldAddr)
		return ok && fa.X == ssa.Value(alloc) && fa.Field == field
	}
	refs := alloc.Referrers()
	if refs == nil {
		return false
	}
	stores := 0
	for _, r := range *refs {
		switch u := r.(type) {
		case *ssa.FieldAddr:
			// every use of a field address: loads, and stores through it (not of it)
			if fr := u.Referrers(); fr != nil {
				for _, r2 := range *fr {
					switch w := r2.(type) {
					case *ssa.UnOp, *ssa.DebugRef:
					case *ssa.Store:
						if w.Val == ssa.Value(u) {
							return false // the field's address is stored somewhere
						}
						if sameCell(u) {
							if k, _ := rootOf(w.Val, depth+1); k != "local" {
								return false
							}
							stores++
						}
					case *ssa.IndexAddr, *ssa.FieldAddr:
						// an embedded array or struct: writes through these are writes into the object itself
					default:
						return false
					}
				}
			}
		case *ssa.Store:
			if u.Val == ssa.Value(alloc) {
				return false // the object's address is stored somewhere
			}
			if field < 0 && u.Addr == ssa.Value(alloc) {
				if k, _ := rootOf(u.Val, depth+1); k != "local" {
					return false
				}
				stores++
			}
		case *ssa.UnOp, *ssa.Return, *ssa.DebugRef:
		default:
			return false // passed to a call, captured by a closure, converted, ...
		}
	}
	return stores > 0
}

func (v *Verifier) mutableAfterInit() *mutInfo {
	m := &mutInfo{sorts: map[string]string{}, globals: map[int64]string{}, isGlob: map[int64]bool{}}
	for g, r := range v.globals {
		_ = g
		m.isGlob[r.Int64()] = true
	}
	for _, fns := range v.P.Funcs {
		for _, fn := range fns {
			if !inRepoFn(fn) || isInitFn(fn) || fn.Blocks == nil {
				continue
			}
			for _, b := range fn.Blocks {
				for _, in := range b.Instrs {
					switch t := in.(type) {
					case *ssa.Store:
						kind, g := rootOf(t.Addr, 0)
						switch kind {
						case "local":
						case "global":
							m.globals[v.globalRef(g).Int64()] = "stored in " + fn.String()
						default:
							cell := cellOfAddr(t.Addr)
							if cell != nil {
								m.sorts[heapName(cell)] = "store in " + fn.String()
							}
						}
					case *ssa.MapUpdate:
						kind, _ := rootOf(t.Map, 0)
						if kind != "local" {
							m.sorts[heapName(mapSortOf(t.Map.Type()))] = "map update in " + fn.String()
						}
					}
				}
			}
		}
	}
	// globals whose address escapes outside init
	for g, r := range v.globals {
		if g.Pkg == nil || !inRepo(g.Pkg.Pkg) {
			continue
		}
		_ = r
	}
	return m
}

// cellOfAddr: the heap cell sort an address points into.
func cellOfAddr(a ssa.Value) *Sort {
	switch t := a.(type) {
	case *ssa.FieldAddr:
		if c := cellOfAddr(t.X); c != nil {
			return c
		}
		return sortOf(elemType(t.X.Type()))
	case *ssa.IndexAddr:
		switch u := t.X.Type().Underlying().(type) {
		case *types.Slice:
			return ArraySort(SInt, sortOf(u.Elem()))
		case *types.Pointer:
			if c := cellOfAddr(t.X); c != nil {
				return c
			}
			return sortOf(u.Elem())
		}
	default:
		if p, ok := a.Type().Underlying().(*types.Pointer); ok {
			_ = p
			return nil
		}
	}
	return nil
}

func sortedKeys[V any](m map[string]V) []string {
	var ks []string
	for k := range m {
		ks = append(ks, k)
	}
	sort.Strings(ks)
	return ks
}

// enumerate splits the entry states over a finite domain of a parameter:
//	enumerate i 0 7           (integers lo <= i < hi)
//	enumerate k in someGlobalMap   (keys of a map fixed by package initialisation)
// The residual "none of them" state is kept unless it is infeasible.
func (v *Verifier) enumerate(states []*State, fn *ssa.Function, c *Contract, spec string) []*State {
	f := strings.Fields(spec)
	if len(f) != 3 {
		unsup("bad enumerate directive %q", spec)
	}
	var param *ssa.Parameter
	for _, p := range fn.Params {
		if p.Name() == f[0] || p.Name() == renamesOf(v.P, fn)[f[0]] {
			param = p
		}
	}
	if param == nil {
		unsup("enumerate: no parameter %s", f[0])
	}
	var out []*State
	for _, st := range states {
		pv := st.env[param]
		var values []*Term
		if f[1] == "in" {
			env := v.specEnv(st, st.top())
			id, _ := parseSpecExpr(f[2])
			m := env.eval(id)
			ms := mapSortOf(m.Ty)
			o := Select(st.getHeap(ms), m.T)
			es, ok := mapKnown[o]
			if !ok {
				unsup("enumerate: map %s is not fixed by initialisation", f[2])
			}
			for _, e := range es {
				values = append(values, e.k)
			}
		} else {
			lo, err1 := strconv.Atoi(f[1])
			hi, err2 := strconv.Atoi(f[2])
			if err1 != nil || err2 != nil {
				unsup("bad enumerate bounds %q", spec)
			}
			for k := lo; k < hi; k++ {
				values = append(values, IntLit(int64(k)))
			}
		}
		var ds []*Term
		for _, val := range values {
			ds = append(ds, Neq(pv, val))
			if !v.feasible(st, Eq(pv, val)) {
				continue
			}
			s2 := st.clone()
			if pv.Op == "var" {
				s2.substVar(pv, val)
			} else {
				s2.assume(Eq(pv, val))
			}
			out = append(out, s2)
		}
		st.assume(And(ds...))
		if v.feasible(st, TTrue) {
			out = append(out, st)
		}
	}
	return out
}
